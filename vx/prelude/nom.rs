// ---- prelude nom.rs: assumed contracts of nom 8 `complete` parsers on byte slices (Kani-checked: harness group dep_nom) ----
pub mod nom {
    pub enum Needed { Unknown, Size(usize) }
    pub enum Err<E> { Incomplete(Needed), Error(E), Failure(E) }
}
pub enum ErrorKind { Tag, Eof, Verify, TooLarge, Char, Float, Fail, Other }
pub struct NomError<I> { pub input: I, pub code: ErrorKind }
impl<I> NomError<I> {
    pub fn new(input: I, code: ErrorKind) -> (r: NomError<I>) ensures r.input == input, r.code == code { NomError { input, code } }
}
pub type NomResult<'a, T> = std::result::Result<(&'a [u8], T), nom::Err<NomError<&'a [u8]>>>;

pub mod sfx {
use vstd::prelude::*;
// "rest is a suffix of input", written without an existential.  CLOSED: callers use the lemmas below; leaving the
// definition open makes every suffix fact an equation between skip() terms, which multiplies index instantiations.
pub closed spec fn is_suffix(rest: Seq<u8>, input: Seq<u8>) -> bool {
    rest.len() <= input.len() && rest == input.skip(input.len() - rest.len())
}
pub broadcast proof fn lemma_suffix_trans(a: Seq<u8>, b: Seq<u8>, c: Seq<u8>)
    requires #[trigger] is_suffix(a, b), #[trigger] is_suffix(b, c),
    ensures is_suffix(a, c),
{
    assert(c.skip(c.len() - b.len()).skip(b.len() - a.len()) =~= c.skip(c.len() - a.len()));
}
pub broadcast proof fn lemma_suffix_skip(s: Seq<u8>, n: int)
    requires 0 <= n <= s.len(),
    ensures #[trigger] is_suffix(s.skip(n), s),
{
    assert(s.skip(s.len() - (s.len() - n)) =~= s.skip(n));
}
pub broadcast proof fn lemma_suffix_len(a: Seq<u8>, b: Seq<u8>)
    requires #[trigger] is_suffix(a, b),
    ensures a.len() <= b.len(),
{}
pub proof fn lemma_suffix_refl(s: Seq<u8>) ensures is_suffix(s, s) { assert(s.skip(0) =~= s); }
pub proof fn lemma_suffix_eq(a: Seq<u8>, b: Seq<u8>) requires is_suffix(a, b) ensures a.len() <= b.len(), a == b.skip(b.len() - a.len()) {}
pub proof fn lemma_suffix_intro(a: Seq<u8>, b: Seq<u8>, n: int) requires 0 <= n <= b.len(), a == b.skip(n) ensures is_suffix(a, b) { lemma_suffix_skip(b, n); }

}
pub use sfx::*;

pub uninterp spec fn f64_from_be(s: Seq<u8>) -> f64;

#[verifier::external_body]
pub fn be_u8<'a>(input: &'a [u8]) -> (r: NomResult<'a, u8>)
    ensures input@.len() >= 1 ==> r.is_ok() && r->Ok_0.1 == input@[0] && r->Ok_0.0@ == input@.skip(1) && is_suffix(r->Ok_0.0@, input@),
            input@.len() < 1 ==> r.is_err(),
{ unimplemented!() }
#[verifier::external_body]
pub fn be_u16<'a>(input: &'a [u8]) -> (r: NomResult<'a, u16>)
    ensures input@.len() >= 2 ==> r.is_ok() && r->Ok_0.1 == be_u16_val(input@) && r->Ok_0.0@ == input@.skip(2) && is_suffix(r->Ok_0.0@, input@),
            input@.len() < 2 ==> r.is_err(),
{ unimplemented!() }
#[verifier::external_body]
pub fn be_u32<'a>(input: &'a [u8]) -> (r: NomResult<'a, u32>)
    ensures input@.len() >= 4 ==> r.is_ok() && r->Ok_0.1 == be_u32_val(input@) && r->Ok_0.0@ == input@.skip(4) && is_suffix(r->Ok_0.0@, input@),
            input@.len() < 4 ==> r.is_err(),
{ unimplemented!() }
#[verifier::external_body]
pub fn be_i32<'a>(input: &'a [u8]) -> (r: NomResult<'a, i32>)
    ensures input@.len() >= 4 ==> r.is_ok() && r->Ok_0.1 == be_u32_val(input@) as i32 && r->Ok_0.0@ == input@.skip(4) && is_suffix(r->Ok_0.0@, input@),
            input@.len() < 4 ==> r.is_err(),
{ unimplemented!() }
#[verifier::external_body]
pub fn be_u64<'a>(input: &'a [u8]) -> (r: NomResult<'a, u64>)
    ensures input@.len() >= 8 ==> r.is_ok() && r->Ok_0.1 == be_u64_val(input@) && r->Ok_0.0@ == input@.skip(8) && is_suffix(r->Ok_0.0@, input@),
            input@.len() < 8 ==> r.is_err(),
{ unimplemented!() }
#[verifier::external_body]
pub fn be_f64<'a>(input: &'a [u8]) -> (r: NomResult<'a, f64>)
    ensures input@.len() >= 8 ==> r.is_ok() && r->Ok_0.1 == f64_from_be(input@.take(8)) && r->Ok_0.0@ == input@.skip(8) && is_suffix(r->Ok_0.0@, input@),
            input@.len() < 8 ==> r.is_err(),
{ unimplemented!() }
// take(n)(input) is written take_n(n, input) by rule R3
#[verifier::external_body]
pub fn take_n<'a>(n: usize, input: &'a [u8]) -> (r: NomResult<'a, &'a [u8]>)
    ensures input@.len() >= n ==> r.is_ok() && r->Ok_0.1@ == input@.take(n as int) && r->Ok_0.0@ == input@.skip(n as int) && is_suffix(r->Ok_0.0@, input@),
            input@.len() < n ==> r.is_err(),
{ unimplemented!() }
