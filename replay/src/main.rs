//! Replays a recorded witness (JSON) against the real crates of /repo through
//! their public API and evaluates the violated postcondition natively.
//! Output: one JSON object {"scenario":..,"holds":bool,"observed":..}; exit 0 if
//! the postcondition holds on the witness, 3 if it is violated (reproduced).
use serde_json::{json, Value};
use std::panic;

mod scenarios;

fn main() {
    let path = std::env::args().nth(1).expect("usage: verif_replay <witness.json>");
    let w: Value = serde_json::from_str(&std::fs::read_to_string(&path).expect("read witness")).expect("json");
    let scenario = w["scenario"].as_str().unwrap_or("").to_string();
    panic::set_hook(Box::new(|_| {}));
    let input = w["input"].clone();
    let res = panic::catch_unwind(move || scenarios::run(&scenario, &input));
    let out = match res {
        Ok(Some((holds, observed))) => json!({"scenario": w["scenario"], "holds": holds, "observed": observed}),
        Ok(None) => json!({"scenario": w["scenario"], "holds": Value::Null, "observed": "unknown scenario"}),
        Err(e) => {
            let msg = e.downcast_ref::<String>().cloned().or_else(|| e.downcast_ref::<&str>().map(|s| s.to_string())).unwrap_or_default();
            json!({"scenario": w["scenario"], "holds": false, "observed": format!("panic: {msg}")})
        }
    };
    println!("{}", out);
    match out["holds"].as_bool() {
        Some(true) => std::process::exit(0),
        Some(false) => std::process::exit(3),
        None => std::process::exit(2),
    }
}
