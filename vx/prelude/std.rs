// ---- prelude std.rs: assumed contracts on core/std functions that vstd does not specify ----
pub assume_specification<T, E> [std::result::Result::<T, E>::unwrap_or] (r: std::result::Result<T, E>, default: T) -> (v: T)
    ensures v == (match r { Ok(x) => x, Err(_) => default });
use std::io;
#[verifier::external_type_specification]
#[verifier::external_body]
pub struct ExIoError(std::io::Error);
// the length of a slice is a usize (language fact; vstd only exposes it through exec `len()`)
#[verifier::external_body]
pub proof fn axiom_slice_len_bound<T>(s: &[T]) ensures s@.len() <= usize::MAX {}
#[verifier::external_body]
pub proof fn axiom_vec_len_bound<T>(v: &Vec<T>) ensures v@.len() <= usize::MAX {}
// `.map_err(|_| E)` is written `.map_err_to(E)` by rule R19
pub trait MapErrTo<T, E> { fn map_err_to<F>(self, e: F) -> std::result::Result<T, F>; }
impl<T, E> MapErrTo<T, E> for std::result::Result<T, E> {
    #[verifier::external_body]
    fn map_err_to<F>(self, e: F) -> (r: std::result::Result<T, F>)
        ensures match self { Ok(v) => r == Ok::<T, F>(v), Err(_) => r == Err::<T, F>(e) },
    { unimplemented!() }
}
