"""Verus unit builder: re-extracts real items from /repo on every run, inserts
contracts from vx/units/<unit>.vu and writes out/<unit>.rs with a line map.

Unit file grammar (lines starting with `#!` are directives):

  #! unit NAME
  #! props C01 C02            default property ids of this unit's obligations
  #! prelude a.rs b.rs        files of vx/prelude/ copied first (assumed contracts)
  #! source ALIAS path        a /repo file
  #! opts sequential-await fmt-keep-args ...
  #! rule ID /regex/ -> /replacement/       unit-wide extra rewrite rule (declared, global in unit)
  #! raw                      verbatim Verus text (spec fns, lemmas) until next directive
  #! item ALIAS KIND NAME [keep_derives=A,B] [external_body] [as=NAME]
  #! fn ALIAS QUALNAME [ret=r] [impl=Trait] [props=..] [assumed] [selfmut] [as=newname]
       contract text (requires / ensures / decreases); clause labels `[id]` at line start
  #! loop N [iter=it]
       invariant / decreases text for the N-th loop of the current fn
  #! at entry | loop-body N | after-loop N | before-call NAME K | before-return K | tail
       text inserted inside `proof { }` at that structural position
  #! attr TEXT               attribute line put in front of the current fn
  @if NAME / @else / @endif  conditional lines (known-finding variants)
"""
import os
import re
import sys
import json

sys.path.insert(0, os.path.dirname(os.path.abspath(__file__)))
from rustscan import mask, match_brace, scan_items, line_of
import rules

REPO = os.environ.get('VERIF_REPO', '/repo')
HERE = os.path.dirname(os.path.abspath(__file__))
VERIF_DIR = os.path.dirname(HERE)


class LostAnchor(Exception):
    pass


class Seg:
    """piece of output text; src = (file, offset) for verbatim text, meta for inserted text"""
    __slots__ = ('text', 'src', 'meta')

    def __init__(self, text, src=None, meta=None):
        self.text = text
        self.src = src
        self.meta = meta or {}


def preprocess(text, defines):
    out = []
    stack = []  # list of bool (active)
    for ln in text.split('\n'):
        s = ln.strip()
        if s.startswith('@if '):
            name = s[4:].strip()
            neg = name.startswith('!')
            name = name.lstrip('!')
            v = (name in defines) != neg
            stack.append(v)
            continue
        if s == '@else':
            stack[-1] = not stack[-1]
            continue
        if s == '@endif':
            stack.pop()
            continue
        if all(stack):
            out.append(ln)
    return '\n'.join(out)


def parse_unit(path, defines=()):
    raw = open(path).read()
    def inc(m):
        return open(os.path.join(os.path.dirname(path), m.group(1))).read()
    for _ in range(4):
        raw = re.sub(r'(?m)^#!\s*include\s+(\S+)\s*$', inc, raw)
    defines = set(defines) | set(re.findall(r'(?m)^#!\s*define\s+(\w+)\s*$', raw))
    raw = re.sub(r'(?m)^#!\s*define\s+\w+\s*$', '', raw)
    text = preprocess(raw, defines)
    unit = {'name': None, 'props': [], 'prelude': [], 'sources': {}, 'opts': set(), 'parts': [], 'rules': []}
    cur = None      # current part
    sub = None      # current sub-section of a fn part
    for ln in text.split('\n'):
        if ln.startswith('#!'):
            d = ln[2:].split()
            if not d:
                continue
            k = d[0]
            if k == 'unit':
                unit['name'] = d[1]
            elif k == 'props':
                unit['props'] = d[1:]
            elif k == 'prelude':
                unit['prelude'] += d[1:]
            elif k == 'source':
                unit['sources'][d[1]] = d[2]
            elif k == 'opts':
                unit['opts'] |= set(d[1:])
            elif k == 'rule':
                m = re.match(r'#!\s*rule\s+(\S+)\s+/(.*)/\s*->\s*/(.*)/\s*$', ln)
                if not m:
                    raise ValueError('bad rule line: ' + ln)
                unit['rules'].append((m.group(2), m.group(3), m.group(1)))
            elif k == 'raw':
                cur = {'kind': 'raw', 'text': [], 'props': _kv(d[1:]).get('props')}
                unit['parts'].append(cur)
                sub = cur['text']
            elif k == 'item':
                kv = _kv(d[4:])
                cur = {'kind': 'item', 'alias': d[1], 'ikind': d[2], 'name': d[3], 'kv': kv, 'text': []}
                unit['parts'].append(cur)
                sub = cur['text']
            elif k == 'fn':
                kv = _kv(d[3:])
                cur = {'kind': 'fn', 'alias': d[1], 'qual': d[2], 'kv': kv, 'contract': [], 'loops': {}, 'ats': [], 'attrs': []}
                unit['parts'].append(cur)
                sub = cur['contract']
            elif k == 'loop':
                kv = _kv(d[2:])
                lp = {'n': int(d[1]), 'kv': kv, 'text': []}
                cur['loops'][int(d[1])] = lp
                sub = lp['text']
            elif k == 'at':
                at = {'where': d[1:], 'text': []}
                cur['ats'].append(at)
                sub = at['text']
            elif k == 'attr':
                cur['attrs'].append(ln[2:].strip()[4:].strip())
            else:
                raise ValueError('unknown directive: ' + ln)
        else:
            if sub is not None:
                sub.append(ln)
    return unit


def _kv(words):
    kv = {}
    for w in words:
        if '=' in w:
            a, b = w.split('=', 1)
            kv[a] = b
        else:
            kv[w] = True
    return kv


class SourceFile:
    def __init__(self, rel):
        self.rel = rel
        # `verif:` sources are bridge files of /verif compiled by BOTH verifiers (DESIGN 2.3)
        self.path = os.path.join(VERIF_DIR, rel[6:]) if rel.startswith('verif:') else os.path.join(REPO, rel)
        if not os.path.exists(self.path):
            raise LostAnchor('source file missing: ' + rel)
        self.src = open(self.path).read()
        self.msk = mask(self.src)
        self.items = scan_items(self.src, self.msk)

    def find(self, ikind, name):
        for it in self.items:
            if it.kind == ikind and it.name == name:
                return it
        raise LostAnchor('%s %s not found in %s' % (ikind, name, self.rel))

    def find_fn(self, qual, impl_filter=None):
        if '::' in qual:
            ty, fn = qual.rsplit('::', 1)
            cands = []
            for it in self.items:
                if it.kind == 'impl' and it.name[0] == ty:
                    if impl_filter is not None:
                        tr = it.name[1] or ''
                        if impl_filter == '-':
                            if tr:
                                continue
                        elif impl_filter not in tr and impl_filter not in it.header:
                            continue
                    for ch in it.children:
                        if ch.kind == 'fn' and ch.name == fn:
                            cands.append(ch)
            if len(cands) != 1:
                raise LostAnchor('fn %s: %d candidates in %s' % (qual, len(cands), self.rel))
            return cands[0]
        for it in self.items:
            if it.kind == 'fn' and it.name == qual:
                return it
        raise LostAnchor('fn %s not found in %s' % (qual, self.rel))


LOOP_RE = re.compile(r'\b(for|while|loop)\b')


def find_loops(msk, lo, hi):
    """positions (kw_start, header_brace) of loops in textual order inside [lo,hi)"""
    res = []
    for m in LOOP_RE.finditer(msk, lo, hi):
        kw = m.group(1)
        s = m.start()
        if s > 0 and (msk[s - 1].isalnum() or msk[s - 1] in '_.'):
            continue
        if kw == 'for':
            # `for<'a>` HRTB or `impl X for Y`
            rest = msk[m.end():m.end() + 200]
            if not re.match(r'\s+[^;{}]*?\bin\b', rest):
                continue
        k = m.end()
        depth = 0
        ob = None
        while k < hi:
            ch = msk[k]
            if ch in '([':
                depth += 1
            elif ch in ')]':
                depth -= 1
            elif ch == '{' and depth == 0:
                ob = k
                break
            elif ch == ';' and depth == 0:
                break
            k += 1
        if ob is None:
            continue
        res.append((s, ob, kw))
    return res


def stmt_start(msk, pos, lo):
    """start of the statement containing pos (scan back to ; { } at depth 0)"""
    depth = 0
    k = pos - 1
    while k > lo:
        ch = msk[k]
        if ch in ')]':
            depth += 1
        elif ch in '([':
            if depth == 0:
                # inside a parenthesised expr: keep going outward
                pass
            else:
                depth -= 1
        elif ch == '}':
            if depth == 0:
                # could be end of previous block statement or part of this expr; treat as boundary
                return k + 1
        elif ch in ';{' and depth == 0:
            return k + 1
        k -= 1
    return lo + 1


def label_lines(lines, fnname, section_default=None):
    """split contract text into (line, meta) with clause ids"""
    out = []
    section = section_default
    clause = None
    counters = {}
    for ln in lines:
        s = ln.strip()
        m = re.match(r'(requires|ensures|invariant|decreases|recommends|invariant_except_break|ensures_on_break|returns|no_unwind)\b', s)
        if m:
            section = m.group(1)
            clause = None
        m2 = re.match(r'(\s*(?:(?:requires|ensures|invariant|decreases|recommends)\s+)?)\[([A-Za-z0-9_.:+\-]+)\]\s*', ln)
        if m2:
            clause = m2.group(2)
            ln = m2.group(1) + '    ' + ln[m2.end():]
        elif s and section and not s.startswith('//') and clause is None and (not m or s[m.end():].strip()):
            counters[section] = counters.get(section, 0) + 1
            clause = '%s#%d' % (section, counters[section])
        out.append((ln, {'fn': fnname, 'section': section, 'clause': clause}))
        if s.endswith(',') and not m2 and False:
            clause = None
    return out



def retarget_for_to_while(part, loops, bm):
    """R34: a `for` loop that the proof hints address through its ghost iterator (`#! loop N iter=it`) was rewritten as
    `let mut I = 0; while I < BOUND { ...; I += 1; }`: the hints are re-targeted to the counter (`it.index@` -> `(I as int)`),
    hint lines that use anything else of the iterator (`it.seq()`) are dropped, and the counter's own invariant and measure
    are added.  Only this one shape is recognised; anything else stays a lost anchor."""
    done = []
    new_loops = {}
    subst = {}
    for n, lp in part['loops'].items():
        it = lp['kv'].get('iter')
        if not it or n < 1 or n > len(loops) or loops[n - 1][2] == 'for':
            new_loops[n] = lp
            continue
        s0, ob, kw = loops[n - 1]
        if kw != 'while':
            new_loops[n] = lp
            continue
        m = re.match(r'while\s+(\w+)\s*<\s*(.+?)\s*$', bm[s0:ob].strip())
        if not m:
            new_loops[n] = lp
            continue
        idx, bound = m.group(1), m.group(2)
        end = match_brace(bm, ob)
        if not re.search(r'\b%s\s*\+=\s*1\s*;' % re.escape(idx), bm[ob:end]):
            new_loops[n] = lp
            continue
        subst[it] = idx
        text = []
        for l in lp['text']:
            l2 = re.sub(r'\b%s\.index@' % re.escape(it), '(%s as int)' % idx, l)
            if re.search(r'\b%s\.' % re.escape(it), l2):
                continue
            text.append(l2)
        # counter facts
        if text and text[0].strip().startswith('invariant'):
            text = [text[0], '        %s <= %s,' % (idx, bound)] + text[1:]
        else:
            text = ['    invariant %s <= %s,' % (idx, bound)] + text
        text.append('    decreases %s - %s,' % (bound, idx))
        kv2 = dict(lp['kv'])
        kv2.pop('iter', None)
        new_loops[n] = dict(lp, kv=kv2, text=text)
        done.append((n, it, idx))
    if not done:
        return part, []
    ats = []
    for at in part['ats']:
        text = []
        for l in at['text']:
            l2 = l
            for it, idx in subst.items():
                l2 = re.sub(r'\b%s\.index@' % re.escape(it), '(%s as int)' % idx, l2)
            if any(re.search(r'\b%s\.' % re.escape(it), l2) for it in subst):
                continue
            text.append(l2)
        ats.append(dict(at, text=text))
    return dict(part, loops=new_loops, ats=ats), done

def build_fn(part, sf, unit, opts, canary=None, drop_hints=()):
    kv = part['kv']
    it = sf.find_fn(part['qual'], kv.get('impl'))
    fnname = kv.get('as') or part['qual']
    src, msk = sf.src, sf.msk
    if it.body_open is None:
        raise LostAnchor('fn %s has no body' % part['qual'])
    sig = src[it.sig_start:it.body_open]
    body = src[it.body_open:it.end]
    # --- rewrite signature
    counts = {}
    sig2, c1 = rules.apply(sig, opts, 'fn')
    # D5: drop pub
    sig2 = 'pub ' + re.sub(r'^\s*pub(\([^)]*\))?\s+', lambda m: rules._keep_nl(m.group(0), ''), sig2)
    # named return
    ret = kv.get('ret')
    if ret:
        m = re.search(r'->\s*', sig2)
        if not m:
            raise LostAnchor('fn %s: ret= given but no return type' % part['qual'])
        # return type extends to `where` or end
        rest = sig2[m.end():]
        wm = re.search(r'\bwhere\b', rest)
        rt = rest[:wm.start()] if wm else rest
        tail = rest[wm.start():] if wm else ''
        sig2 = sig2[:m.start()] + '-> (%s: %s) ' % (ret, rt.strip()) + ('\n' * rt.count('\n')) + tail
    if kv.get('selfmut'):
        sig2, n = re.subn(r'\(\s*&self\b', '(&mut self', sig2, 1)
        if n:
            c1['R9'] = c1.get('R9', 0) + 1
    # associated types of the enclosing impl (D6)
    assoc = {}
    if it.parent is not None:
        for m in re.finditer(r'\btype\s+(\w+)\s*=\s*([^;]+);', src[it.parent.body_open:it.parent.end]):
            assoc[m.group(1)] = m.group(2).strip()
    def fix_assoc(t):
        for a, b in assoc.items():
            t = re.sub(r'\bSelf::%s\b' % a, b, t)
        return t
    sig2 = fix_assoc(sig2)
    # --- rewrite body
    body2, c2 = rules.apply(body, opts, 'fn')
    body2 = fix_assoc(body2)
    if kv.get('assumed'):
        sig2 = re.sub(r'\(\s*mut self\b', '(self', sig2)
        # contract assumed, body not verified: do not even type-check it (its callees need not be extracted)
        body2 = '{ unimplemented!() }' + '\n' * body2.count('\n')
    for k, v in list(c1.items()) + list(c2.items()):
        counts[k] = counts.get(k, 0) + v
    if it.parent is not None and it.parent.name[1]:
        counts['D6'] = 1
    segs = []
    base_meta = {'fn': fnname}
    # a loop without a `decreases` clause stops Verus before anything is verified ("loop must have a decreases clause"):
    # allow it, so that a newly written loop is judged by the function's contract, not by a front-end error.
    # Termination of such a loop is then NOT proved (recorded in the function's info).
    bm = mask(body2)
    loops = find_loops(bm, 1, len(bm))
    n_dec = sum(1 for lp in part['loops'].values() if any('decreases' in l for l in lp['text']))
    n_nonfor = sum(1 for (_s, _ob, kw) in loops if kw != 'for')
    term_unproved = False
    if n_nonfor > n_dec and not kv.get('assumed') and not any('exec_allows_no_decreases_clause' in a for a in part['attrs']):
        segs.append(Seg('#[verifier::exec_allows_no_decreases_clause]\n', None, dict(base_meta, section='attr')))
        term_unproved = True
    for a in part['attrs']:
        segs.append(Seg(a + '\n', None, dict(base_meta, section='attr')))
    if kv.get('assumed'):
        segs.append(Seg('#[verifier::external_body]\n', None, dict(base_meta, section='attr')))
    segs.append(Seg(sig2.rstrip() + '\n', (sf.rel, it.sig_start), dict(base_meta, section='sig')))
    for ln, meta in label_lines(part['contract'], fnname):
        if ln.strip():
            segs.append(Seg(ln + '\n', None, meta))
    # --- body with insertions
    bm = mask(body2)
    inserts = []  # (offset in body2, text, meta, order)
    loops = find_loops(bm, 1, len(bm))
    if kv.get('assumed'):
        part = dict(part, loops={}, ats=[])   # nothing is inserted into a stub body
    anchors_lost = None
    retargeted = []
    if not kv.get('assumed'):
        part, retargeted = retarget_for_to_while(part, loops, bm)
    try:
        if fnname in drop_hints or part['qual'] in drop_hints:
            raise LostAnchor('fn %s: a proof hint no longer compiles (names a local that does not exist any more)' % part['qual'])
        _check_anchors(part, loops, bm)
    except LostAnchor as e:
        # the body no longer has the shape the proof hints were written for: keep the CONTRACT, drop the hints.
        # A failure of this function is then only reported with a replayed concrete witness (check: tentative)
        anchors_lost = str(e)
        part = dict(part, loops={}, ats=[])
    for n, lp in part['loops'].items():
        if n < 1 or n > len(loops):
            raise LostAnchor('fn %s: loop %d not found (%d loops)' % (part['qual'], n, len(loops)))
        s, ob, kw = loops[n - 1]
        txt = ''
        lab = label_lines(lp['text'], fnname, 'invariant')
        inserts.append((ob, [(l + '\n', dict(m, loop=n)) for l, m in lab if l.strip()], 1))
        if lp['kv'].get('iter'):
            if kw != 'for':
                raise LostAnchor('fn %s: loop %d is not a for loop' % (part['qual'], n))
            m = re.compile(r'\bin\s+').search(bm, s, ob)
            inserts.append((m.end(), [('%s: ' % lp['kv']['iter'], {'fn': fnname, 'section': 'sig'})], 0))
    for at in part['ats']:
        w = at['where']
        txt = [(' proof {\n', None)] + [(l + '\n', None) for l in at['text'] if l.strip()] + [(' }\n', None)]
        meta = {'fn': fnname, 'section': 'proof', 'clause': 'proof@' + '-'.join(w)}
        lines = [(t, meta) for t, _ in txt]
        if w[0] == 'exec':
            # ghost statements without the proof{} wrapper (e.g. `let ghost x = ..;`)
            lines = [(l + '\n', meta) for l in at['text'] if l.strip()]
            w = w[1:]
        if w[0] == 'entry':
            pos = 1
        elif w[0] == 'loop-body':
            n = int(w[1])
            if n > len(loops):
                raise LostAnchor('fn %s: loop %d not found' % (part['qual'], n))
            pos = loops[n - 1][1] + 1
        elif w[0] == 'before-loop':
            n = int(w[1])
            if n > len(loops):
                raise LostAnchor('fn %s: loop %d not found' % (part['qual'], n))
            pos = stmt_start(bm, loops[n - 1][0], 0)
        elif w[0] == 'after-loop':
            n = int(w[1])
            if n > len(loops):
                raise LostAnchor('fn %s: loop %d not found' % (part['qual'], n))
            pos = match_brace(bm, loops[n - 1][1]) + 1
        elif w[0] == 'before-call':
            name, k = w[1], int(w[2]) if len(w) > 2 else 1
            occ = [m.start() for m in re.finditer(r'(?<![A-Za-z0-9_])' + re.escape(name) + r'\s*(?:::<[^>]*>)?\s*\(', bm)]
            if k > len(occ):
                raise LostAnchor('fn %s: call %s #%d not found' % (part['qual'], name, k))
            pos = stmt_start(bm, occ[k - 1], 0)
        elif w[0] == 'before-return':
            k = int(w[1]) if len(w) > 1 else 1
            occ = [m.start() for m in re.finditer(r'\breturn\b', bm)]
            if k > len(occ):
                raise LostAnchor('fn %s: return #%d not found' % (part['qual'], k))
            pos = stmt_start(bm, occ[k - 1], 0)
        elif w[0] == 'tail':
            # before the tail expression: last statement start at depth 1
            end = len(bm) - 1
            k = end - 1
            while k > 0 and bm[k] in ' \t\r\n':
                k -= 1
            pos = stmt_start_depth1(bm, k + 1)
        elif w[0] == 'before-stmt':
            # n-th top-level statement of the body
            pos = nth_stmt(bm, int(w[1]))
        else:
            raise ValueError('bad #! at ' + ' '.join(w))
        inserts.append((pos, lines, 2))
    cmeta = {'fn': fnname, 'section': 'canary', 'clause': 'CANARY'}
    ncanary = 0
    if canary == 'entry' and not kv.get('assumed'):
        inserts.append((1, [(' proof { assert(false); }\n', cmeta)], 3))
        ncanary += 1
    if canary == 'loop' and not kv.get('assumed'):
        for n in part['loops']:
            inserts.append((loops[n - 1][1] + 1, [(' proof { assert(false); }\n', dict(cmeta, loop=n))], 3))
            ncanary += 1
    inserts.sort(key=lambda x: (x[0], x[2]))
    body_off = it.body_open
    last = 0
    for pos, lines, _ in inserts:
        if pos > last:
            segs.append(Seg(body2[last:pos], (sf.rel, body_off + last), dict(base_meta, section='body')))
            last = pos
        for t, meta in lines:
            segs.append(Seg(t if t.endswith(': ') else t, None, meta))
    segs.append(Seg(body2[last:], (sf.rel, body_off + last), dict(base_meta, section='body')))
    segs.append(Seg('\n', None, {}))
    # impl wrapper
    if it.parent is not None:
        hdr = it.parent.header
        tyname, trait = it.parent.name
        if trait:
            hdr = re.sub(r'^(impl\s*(?:<[^>]*>)?)\s*.*?\sfor\s', r'\1 ', hdr, 1)
        segs = [Seg(hdr + ' {\n', None, {})] + segs + [Seg('}\n', None, {})]
    info = {'fn': fnname, 'file': sf.rel, 'line': line_of(src, it.sig_start), 'rules': counts,
            'assumed': bool(kv.get('assumed')), 'props': kv.get('props', '').split(',') if kv.get('props') else None,
            'has_requires': any('requires' == (m.get('section')) for _, m in label_lines(part['contract'], fnname)),
            'clauses': sorted({m['clause'] for _, m in label_lines(part['contract'], fnname) if m.get('clause') and m.get('section') == 'ensures'}),
            'anchors_lost': anchors_lost, 'termination_unproved': term_unproved, 'retargeted_loops': retargeted,
            'ncanary': ncanary, 'nloops_contracted': len(part['loops']),
            'body_tokens': len(body.split()), 'body_tokens_out': len(body2.split())}
    return segs, info


def _check_anchors(part, loops, bm):
    """raise LostAnchor if any structural position named by the hints does not exist"""
    for n, lp in part['loops'].items():
        if n < 1 or n > len(loops):
            raise LostAnchor('fn %s: loop %d not found (%d loops)' % (part['qual'], n, len(loops)))
        if lp['kv'].get('iter') and loops[n - 1][2] != 'for':
            raise LostAnchor('fn %s: loop %d is not a for loop' % (part['qual'], n))
        if not lp['kv'].get('iter') and loops[n - 1][2] == 'for':
            # invariants written for a `while` / `loop` (they talk about the loop's own counter) do not fit a `for` loop
            raise LostAnchor('fn %s: loop %d became a for loop (its invariants were written for a while loop)' % (part['qual'], n))
    for at in part['ats']:
        w = at['where']
        if w[0] == 'exec':
            w = w[1:]
        if w[0] in ('loop-body', 'after-loop', 'before-loop') and int(w[1]) > len(loops):
            raise LostAnchor('fn %s: loop %s not found' % (part['qual'], w[1]))
        if w[0] == 'before-call':
            name, k = w[1], int(w[2]) if len(w) > 2 else 1
            occ = [m.start() for m in re.finditer(r'(?<![A-Za-z0-9_])' + re.escape(name) + r'\s*(?:::<[^>]*>)?\s*\(', bm)]
            if k > len(occ):
                raise LostAnchor('fn %s: call %s #%d not found' % (part['qual'], name, k))
        if w[0] == 'before-return':
            k = int(w[1]) if len(w) > 1 else 1
            if k > len(re.findall(r'\breturn\b', bm)):
                raise LostAnchor('fn %s: return #%d not found' % (part['qual'], k))
        if w[0] == 'before-stmt':
            nth_stmt(bm, int(w[1]))


def stmt_start_depth1(bm, pos):
    depth = 0
    k = pos - 1
    while k > 0:
        ch = bm[k]
        if ch in ')]}':
            depth += 1
        elif ch in '([{':
            if depth == 0:
                return k + 1
            depth -= 1
        elif ch == ';' and depth == 0:
            return k + 1
        k -= 1
    return 1


def nth_stmt(bm, n):
    """offset of the start of the n-th (1-based) top-level statement"""
    k = 1
    depth = 0
    idx = 1
    if n == 1:
        return 1
    while k < len(bm) - 1:
        ch = bm[k]
        if ch in '([{':
            depth += 1
        elif ch in ')]}':
            depth -= 1
            if depth == 0 and ch == '}':
                # block statement ends (if/for/while) unless followed by else / ; / .
                j = k + 1
                while j < len(bm) and bm[j] in ' \t\r\n':
                    j += 1
                if not (bm.startswith('else', j) or bm[j] in ';.?)'):
                    idx += 1
                    if idx == n:
                        return k + 1
        elif ch == ';' and depth == 0:
            idx += 1
            if idx == n:
                return k + 1
        k += 1
    raise LostAnchor('statement %d not found' % n)


def pub_fields(text):
    """D5: every named field of a struct becomes `pub` (lets contracts mention it)."""
    msk = mask(text)
    ob = msk.find('{')
    if ob < 0:
        # tuple struct: `struct X(A, pub B);`
        op = msk.find('(')
        if op < 0:
            return text
        cl = match_brace(msk, op, '(', ')')
        inner = text[op + 1:cl]
        parts, d, last = [], 0, 0
        for j, ch in enumerate(mask(inner)):
            if ch in '(<[':
                d += 1
            elif ch in ')>]':
                d -= 1
            elif ch == ',' and d == 0:
                parts.append(inner[last:j])
                last = j + 1
        parts.append(inner[last:])
        parts = [('pub ' + re.sub(r'^\s*pub(\([^)]*\))?\s+', '', q.strip())) if q.strip() else q for q in parts]
        return text[:op + 1] + ', '.join(parts) + text[cl:]
    out = []
    depth = 0
    i = 0
    res = text[:ob + 1]
    k = ob + 1
    depth = 1
    line_start = True
    while k < len(text):
        ch = msk[k]
        if ch in '{([<':
            depth += 1
        elif ch in '})]>':
            depth -= 1
        if depth == 1 and line_start:
            m = re.match(r'(\s*)(pub(?:\([^)]*\))?\s+)?([A-Za-z_][A-Za-z0-9_]*\s*:(?!:))', text[k:])
            if m and m.start() == 0 and not text[k:].lstrip().startswith('//'):
                res += m.group(1) + 'pub ' + m.group(3)
                k += m.end()
                line_start = False
                continue
        line_start = (ch == '\n') or (line_start and ch in ' \t')
        res += text[k]
        k += 1
    return res


def build_item(part, sf, opts):
    if part['ikind'] == 'allconsts':
        segs, n = [], 0
        for it in sf.items:
            if it.kind == 'const':
                t = 'pub ' + re.sub(r'^\s*pub(\([^)]*\))?\s+', '', sf.src[it.sig_start:it.end])
                segs.append(Seg(t + '\n', (sf.rel, it.sig_start), {'section': 'item', 'item': it.name}))
                n += 1
        if n == 0:
            raise LostAnchor('no consts in ' + sf.rel)
        return segs, {'item': 'allconsts(%d)' % n, 'file': sf.rel, 'line': 1, 'rules': {}}
    it = sf.find(part['ikind'], part['name'])
    text = sf.src[it.sig_start:it.end]
    attrs = sf.src[it.start:it.sig_start]
    o = dict(opts)
    if 'keep_derives' in part['kv']:
        o['keep_derives'] = tuple(x for x in str(part['kv']['keep_derives']).split(',') if x and x != 'True')
    a2, c0 = rules.apply(attrs, o, 'item')
    t2, c1 = rules.apply(text, o, 'item')
    t2 = 'pub ' + re.sub(r'^\s*pub(\([^)]*\))?\s+', '', t2)
    if part['ikind'] == 'struct':
        t2 = pub_fields(t2)
    pre = ''
    if part['kv'].get('external_body'):
        pre = '#[verifier::external_body]\n'
    extra = ''.join(l + '\n' for l in part['text'] if l.strip())
    segs = [Seg(extra, None, {}), Seg(pre, None, {}), Seg(a2.strip() + '\n', None, {}), Seg(t2 + '\n', (sf.rel, it.sig_start), {'section': 'item', 'item': part['name']})]
    for k, v in c0.items():
        c1[k] = c1.get(k, 0) + v
    return segs, {'item': part['name'], 'file': sf.rel, 'line': line_of(sf.src, it.sig_start), 'rules': c1}


def build(unit_path, out_path, defines=(), canary=None, drop_hints=()):
    unit = parse_unit(unit_path, defines)
    opts = {'sequential_await': 'sequential-await' in unit['opts'],
            'fmt_keep_args': 'fmt-keep-args' in unit['opts'],
            'extra_rules': unit['rules']}
    sources = {a: SourceFile(p) for a, p in unit['sources'].items()}
    segs = [Seg('#![allow(unused_imports, dead_code, unused_variables, unused_mut, unused_assignments, non_snake_case, unreachable_code, unused_parens, unused_braces)]\n'
                '#![feature(allocator_api)]\nuse vstd::prelude::*;\n', None, {})]
    # raw parts that start with `//! outside` are emitted before verus!
    segs.append(Seg('verus! {\n', None, {}))
    for p in unit['prelude']:
        segs.append(Seg(open(os.path.join(HERE, 'prelude', p)).read() + '\n', None, {'section': 'prelude', 'prelude': p}))
    fns, items, lemmas = [], [], []
    seen_items = set()
    seen_fns = set()
    for part in unit['parts']:
        if part['kind'] == 'raw':
            txt = '\n'.join(part['text']) + '\n'
            segs.append(Seg(txt, None, {'section': 'raw', 'props': part.get('props')}))
            for m in re.finditer(r'\bproof\s+fn\s+(\w+)', txt):
                pre = txt[max(0, m.start() - 200):m.start()]
                if 'external_body' in pre.split('\n')[-2:][0] if pre.split('\n')[-2:] else False:
                    continue
                lemmas.append(m.group(1))
        elif part['kind'] == 'item':
            key = (part['ikind'], part['name'])
            if key in seen_items:
                continue      # the same item requested by two includes
            seen_items.add(key)
            s, info = build_item(part, sources[part['alias']], opts)
            segs += s
            items.append(info)
        elif part['kind'] == 'fn':
            if (part['alias'], part['qual']) in seen_fns:
                continue
            seen_fns.add((part['alias'], part['qual']))
            s, info = build_fn(part, sources[part['alias']], unit, opts, canary, drop_hints)
            segs += s
            fns.append(info)
    # D8: constants of a source file that an extracted function mentions are extracted too (a new guard constant
    # must not turn a check into "undecided")
    have = set()
    for sg in segs:
        for m in re.finditer(r'\bconst\s+([A-Z][A-Z0-9_]*)\s*:', sg.text):
            have.add(m.group(1))
    body_text = ''.join(sg.text for sg in segs if sg.meta.get('section') in ('body', 'sig'))
    extra = []
    for alias, sf in sources.items():
        if sf.rel.startswith('verif:'):
            continue
        for it in sf.items:
            if it.kind == 'const' and it.name not in have and re.search(r'\b%s\b' % re.escape(it.name), body_text):
                t = 'pub ' + re.sub(r'^\s*pub(\([^)]*\))?\s+', '', sf.src[it.sig_start:it.end])
                t, _c = rules.apply(t, opts, 'item')
                extra.append(Seg(t + '\n', (sf.rel, it.sig_start), {'section': 'item', 'item': it.name}))
                have.add(it.name)
                items.append({'item': it.name + ' (auto, D8)', 'file': sf.rel, 'line': line_of(sf.src, it.sig_start), 'rules': {}})
    segs += extra
    # D9: a private helper of a source file that an extracted function now calls but that is not in the unit (a refactoring
    # extracted it) is pulled in WITHOUT a contract, so that the unit stays readable; functions calling it are marked
    # `calls_uncontracted`: their obligations can then only be judged with a concrete witness (check: tentative)
    out_text = ''.join(sg.text for sg in segs)
    defined = set(re.findall(r'\bfn\s+(\w+)\b', out_text))
    auto_helpers = []
    for alias, sf in sources.items():
        if sf.rel.startswith('verif:'):
            continue
        cands = []
        for it in sf.items:
            if it.kind == 'fn':
                cands.append((it.name, it.name))
            elif it.kind == 'impl' and not it.name[1]:
                for ch in it.children:
                    if ch.kind == 'fn':
                        cands.append((ch.name, '%s::%s' % (it.name[0], ch.name)))
        for name, qual in cands:
            if name in defined or name in ('new', 'from', 'default', 'fmt', 'clone', 'eq', 'cmp', 'partial_cmp', 'hash', 'drop', 'next', 'len', 'is_empty'):
                continue
            if '::' in qual:
                ty = qual.split('::')[0]
                # a method of a type of this file: called as Self::name(..), Type::name(..) or self.name(..)
                if not re.search(r'(?:\bSelf::|\b%s::|\bself\s*\.\s*)%s\s*\(' % (re.escape(ty), re.escape(name)), body_text):
                    continue
            else:
                # a free function: a plain call, not a method call and not a path into another module
                if not re.search(r'(?<![A-Za-z0-9_.:])%s\s*\(' % re.escape(name), body_text):
                    continue
            part = {'kind': 'fn', 'alias': alias, 'qual': qual, 'kv': {}, 'contract': [], 'loops': {}, 'ats': [], 'attrs': []}
            try:
                sg, info = build_fn(part, sf, unit, opts, None, ())
            except (LostAnchor, rules.Unsupported):
                continue
            info['auto_helper'] = True
            segs += sg
            fns.append(info)
            defined.add(name)
            auto_helpers.append(name)
    if auto_helpers:
        for sg in segs:
            pass
        for info in fns:
            if info.get('auto_helper'):
                continue
            # which contracted functions call a helper? (textual: the body segments of that function)
            btxt = ''.join(sg.text for sg in segs if sg.meta.get('fn') == info['fn'] and sg.meta.get('section') == 'body')
            called = [h for h in auto_helpers if re.search(r'(?<![A-Za-z0-9_])%s\s*\(' % re.escape(h), btxt)]
            if called:
                info['calls_uncontracted'] = called
    segs.append(Seg('} // verus!\nfn main() {}\n', None, {}))
    # flatten
    text = ''.join(s.text for s in segs)
    linemap = []
    line_meta = {}
    cur_line = 1
    src_cache = {a.rel: a for a in sources.values()}
    for s in segs:
        nl = s.text.count('\n')
        # lines touched by this seg: cur_line .. cur_line+nl (last partial)
        if s.src:
            rel, off = s.src
            base = line_of(src_cache[rel].src, off)
            parts = s.text.split('\n')
            for i, p in enumerate(parts):
                if p.strip() or True:
                    ent = line_meta.setdefault(cur_line + i, {})
                    if 'src' not in ent and p.strip():
                        ent['src'] = (rel, base + i)
                    for k, v in s.meta.items():
                        ent.setdefault(k, v)
        else:
            parts = s.text.split('\n')
            for i, p in enumerate(parts):
                if p.strip():
                    ent = line_meta.setdefault(cur_line + i, {})
                    for k, v in s.meta.items():
                        if k in ('clause', 'section'):
                            ent[k] = v
                        else:
                            ent.setdefault(k, v)
        cur_line += nl
    os.makedirs(os.path.dirname(out_path), exist_ok=True)
    with open(out_path, 'w') as f:
        f.write(text)
    meta = {'unit': unit['name'], 'props': unit['props'], 'fns': fns, 'items': items, 'lemmas': lemmas,
            'lines': {str(k): v for k, v in line_meta.items()}, 'prelude': unit['prelude'],
            'sources': unit['sources'], 'opts': sorted(unit['opts'])}
    with open(out_path + '.map.json', 'w') as f:
        json.dump(meta, f)
    return meta


if __name__ == '__main__':
    m = build(sys.argv[1], sys.argv[2], sys.argv[3:])
    print(json.dumps({k: v for k, v in m.items() if k != 'lines'}, indent=1))
