use serde_json::{json, Value};

fn i(v: &Value) -> i64 {
    v.as_i64().or_else(|| v.as_str().and_then(|s| s.parse().ok())).expect("i64")
}

/// returns (postcondition holds, observed)
pub fn run(scenario: &str, input: &Value) -> Option<(bool, Value)> {
    match scenario {
        // C20: len / contains / iteration of a range agree, no overflow
        "range" => {
            use edp_elixir_terms::ElixirRange;
            let r = ElixirRange::new(i(&input["first"]), i(&input["last"]), i(&input["step"]));
            let probe = input.get("probe").map(i);
            let len = r.len();
            let mut items = Vec::new();
            for (n, v) in r.into_iter().enumerate() {
                if n >= 64 { break; }
                items.push(v);
            }
            let mut ok = true;
            // spec: element k = first + k*step (mathematical), k < len
            for (k, v) in items.iter().enumerate() {
                let want = r.first as i128 + (k as i128) * (r.step as i128);
                ok &= *v as i128 == want && r.contains(*v);
            }
            ok &= if len <= 64 { items.len() == len } else { items.len() == 64 };
            let mut probe_res = Value::Null;
            if let Some(p) = probe {
                let c = r.contains(p);
                let d = p as i128 - r.first as i128;
                let want = len > 0 && r.step != 0 && d % (r.step as i128) == 0 && d / (r.step as i128) >= 0 && ((d / (r.step as i128)) as u128) < len as u128;
                ok &= c == want;
                probe_res = json!({"contains": c, "want": want});
            }
            Some((ok, json!({"len": len, "items": items, "probe": probe_res})))
        }
        // C06: frames sent by a scripted peer after a real handshake; every well-formed message is returned once, in
        // order; a malformed frame yields an error for that frame only and never panics the task
        "recv_frames" => {
            let frames: Vec<Vec<u8>> = input["frames"].as_array().unwrap().iter()
                .map(|f| f.as_array().unwrap().iter().map(|x| x.as_u64().unwrap() as u8).collect()).collect();
            let expect: Vec<String> = input["expect"].as_array().unwrap().iter().map(|x| x.as_str().unwrap().to_string()).collect();
            let flags = input.get("peer_flags").and_then(|v| v.as_u64()).unwrap_or(0x0000_000d_07df_7fbd);
            let rt = tokio::runtime::Builder::new_current_thread().enable_all().build().unwrap();
            let n_expect = expect.len();
            let got: Vec<String> = rt.block_on(async move {
                let (mut conn, mut peer) = crate::peer::connected(flags).await;
                use tokio::io::AsyncWriteExt;
                for f in &frames { peer.write_all(&crate::peer::frame(f)).await.unwrap(); }
                peer.flush().await.unwrap();
                let mut got = Vec::new();
                for _ in 0..n_expect {
                    let h = tokio::spawn(async move {
                        let r = tokio::time::timeout(std::time::Duration::from_secs(2), conn.receive_message()).await;
                        (conn, r)
                    });
                    match h.await {
                        Ok((c, Ok(Ok((ctl, _))))) => { got.push(format!("ok:{}", ctl.to_term().as_tuple().map(|t| t.len()).unwrap_or(0))); conn = c; }
                        Ok((c, Ok(Err(_)))) => { got.push("err".to_string()); conn = c; }
                        Ok((c, Err(_))) => { got.push("timeout".to_string()); conn = c; }
                        Err(_) => { got.push("panic".to_string()); break; }
                    }
                }
                got
            });
            Some((got == expect, json!({"got": got})))
        }
        // C11/C12: laws of the term order on a pair / triple, and the order Erlang prescribes where `erlang` is given
        "cmp_law" => {
            let a = term(&input["a"]);
            let b = term(&input["b"]);
            let ab = a.cmp(&b);
            let ba = b.cmp(&a);
            let mut ok = ab == ba.reverse();
            let mut obs = json!({"a_cmp_b": ord_s(ab), "b_cmp_a": ord_s(ba)});
            if let Some(e) = input.get("erlang").and_then(|v| v.as_str()) {
                ok &= ord_s(ab) == e;
            }
            if a == b {
                ok &= ab == std::cmp::Ordering::Equal && hash_of(&a) == hash_of(&b);
                obs["eq"] = json!(true);
                obs["hash_equal"] = json!(hash_of(&a) == hash_of(&b));
            }
            if let Some(cv) = input.get("c") {
                let c = term(cv);
                let bc = b.cmp(&c);
                let ac = a.cmp(&c);
                use std::cmp::Ordering::*;
                // a<=b && b<=c ==> a<=c
                if ab != Greater && bc != Greater { ok &= ac != Greater; }
                // a==b (order) ==> a and b compare alike against c
                if ab == Equal { ok &= ac == bc; }
                obs["b_cmp_c"] = json!(ord_s(bc));
                obs["a_cmp_c"] = json!(ord_s(ac));
            }
            Some((ok, obs))
        }
        // C09: fragments numbered N..1 (header = N, carrying the start of the data) reassemble to the original bytes
        "fragments" => {
            use edp_client::fragmentation::FragmentAssembler;
            let original: Vec<u8> = input["original"].as_array().unwrap().iter().map(|x| x.as_u64().unwrap() as u8).collect();
            let cuts: Vec<usize> = input["cuts"].as_array().unwrap().iter().map(|x| x.as_u64().unwrap() as usize).collect();
            // pieces in data order; piece k (0-based) of n has fragment id n-k
            let mut pieces = Vec::new();
            let mut last = 0;
            for c in cuts.iter().chain(std::iter::once(&original.len())) { pieces.push(original[last..*c].to_vec()); last = *c; }
            let n = pieces.len() as u64;
            // arrival order given as list of piece indices
            let order: Vec<usize> = input["arrival"].as_array().unwrap().iter().map(|x| x.as_u64().unwrap() as usize).collect();
            let mut a = FragmentAssembler::new();
            let mut outs = Vec::new();
            for k in order {
                let id = n - k as u64;
                let r = if k == 0 { a.start_fragment(7u64, id, None, pieces[k].clone()) } else { a.add_fragment(7u64, id, pieces[k].clone()) };
                outs.push(r);
            }
            let some: Vec<&Vec<u8>> = outs.iter().filter_map(|o| o.as_ref()).collect();
            let ok = some.len() == 1 && outs.last().unwrap().is_some() && *some[0] == original && a.pending_count() == 0;
            Some((ok, json!({"returned": some, "pending_after": a.pending_count()})))
        }
        // C03: an encoding of an atom decodes to exactly that atom (text given as UTF-8)
        "decode_atom" => {
            let data = gen_bytes(input);
            let want = input["atom_utf8"].as_str().unwrap().to_string();
            let owned = erltf::decode(&data);
            let ok_owned = matches!(&owned, Ok(erltf::OwnedTerm::Atom(a)) if a.as_str() == want);
            let mut ok = ok_owned;
            let mut borrowed_obs = Value::Null;
            if input.get("also_borrowed").and_then(|v| v.as_bool()).unwrap_or(false) {
                let b = erltf::decoder::decode_borrowed(&data);
                let okb = matches!(&b, Ok(t) if matches!(t.to_owned(), erltf::OwnedTerm::Atom(ref a) if a.as_str() == want));
                ok &= okb;
                borrowed_obs = json!(format!("{:?}", b.map(|t| t.to_owned())));
            }
            Some((ok, json!({"owned": format!("{:?}", owned), "borrowed": borrowed_obs})))
        }
        // C02: every decoding entry point returns; allocation stays proportional to the input
        "decode_bytes" => {
            let data = gen_bytes(input);
            let entry = input["entry"].as_str().unwrap_or("owned").to_string();
            let stack = input.get("stack_bytes").and_then(|v| v.as_u64()).unwrap_or(2 * 1024 * 1024) as usize;
            let len = data.len();
            let extra = input.get("inflated").and_then(|v| v.as_u64()).unwrap_or(0) as usize;
            crate::alloc_probe::reset();
            let h = std::thread::Builder::new().stack_size(stack).spawn(move || {
                let r: String = match entry.as_str() {
                    "owned" => format!("{:?}", erltf::decode(&data).map(|t| t.type_name())),
                    "borrowed" => format!("{:?}", erltf::decoder::decode_borrowed(&data).map(|_| "term").map_err(|e| e.error)),
                    "with_trailing" => format!("{:?}", erltf::decoder::decode_with_trailing(&data).map(|(t, _)| t.type_name())),
                    "atom_cache" => {
                        let mut c = erltf::decoder::AtomCache::new();
                        format!("{:?}", erltf::decoder::decode_with_atom_cache(&data, &mut c).map(|(t, _)| t.type_name()))
                    }
                    "fragment_header" => format!("{:?}", erltf::decoder::decode_fragment_header(&data).map(|(h, _)| h.fragment_id)),
                    _ => "unknown entry".to_string(),
                };
                r
            }).expect("spawn");
            let res = h.join();
            let max_req = crate::alloc_probe::max_req();
            let budget = 64 * (len + extra) + 65536;
            match res {
                Ok(r) => Some((max_req <= budget, json!({"result": r.chars().take(80).collect::<String>(), "input_len": len, "max_single_allocation": max_req, "budget": budget}))),
                Err(_) => Some((false, json!({"result": "panic", "input_len": len}))),
            }
        }
        _ => None,
    }
}

/// terms written as JSON: {"int":n} {"float":x} {"big":{"neg":b,"digits":[..]}} {"atom":"a"} {"bin":[..]} {"bitbin":[[..],bits]}
/// {"list":[..]} {"improper":[[..],tail]} {"tuple":[..]} {"map":[[k,v],..]} "nil"
pub fn term(v: &Value) -> erltf::OwnedTerm {
    use erltf::OwnedTerm as T;
    if v.as_str() == Some("nil") { return T::Nil; }
    let o = v.as_object().expect("term object");
    let (k, x) = o.iter().next().unwrap();
    let bytes = |x: &Value| -> Vec<u8> { x.as_array().unwrap().iter().map(|b| b.as_u64().unwrap() as u8).collect() };
    match k.as_str() {
        "int" => T::Integer(i(x)),
        "float" => T::Float(x.as_f64().or_else(|| x.as_str().and_then(|s| s.parse().ok())).unwrap()),
        "big" => T::BigInt(erltf::types::BigInt::new(x["neg"].as_bool().unwrap(), bytes(&x["digits"]))),
        "atom" => T::Atom(erltf::types::Atom::new(x.as_str().unwrap())),
        "bin" => T::Binary(bytes(x)),
        "bitbin" => T::BitBinary { bytes: bytes(&x[0]), bits: x[1].as_u64().unwrap() as u8 },
        "list" => T::List(x.as_array().unwrap().iter().map(term).collect()),
        "improper" => T::ImproperList { elements: x[0].as_array().unwrap().iter().map(term).collect(), tail: Box::new(term(&x[1])) },
        "tuple" => T::Tuple(x.as_array().unwrap().iter().map(term).collect()),
        "map" => T::Map(x.as_array().unwrap().iter().map(|kv| (term(&kv[0]), term(&kv[1]))).collect()),
        _ => panic!("unknown term kind {k}"),
    }
}
fn ord_s(o: std::cmp::Ordering) -> &'static str { match o { std::cmp::Ordering::Less => "Less", std::cmp::Ordering::Equal => "Equal", std::cmp::Ordering::Greater => "Greater" } }
fn hash_of(t: &erltf::OwnedTerm) -> u64 { use std::hash::{Hash, Hasher}; let mut h = std::collections::hash_map::DefaultHasher::new(); t.hash(&mut h); h.finish() }

/// input bytes: either literal `bytes`, or a generator
fn gen_bytes(input: &Value) -> Vec<u8> {
    if let Some(a) = input.get("bytes").and_then(|v| v.as_array()) {
        return a.iter().map(|x| x.as_u64().unwrap() as u8).collect();
    }
    match input["gen"].as_str().unwrap_or("") {
        // 131, then `depth` nested one-element LIST_EXT, innermost NIL, then the NIL tails
        "nested_list" => {
            let d = input["depth"].as_u64().unwrap() as usize;
            let mut v = vec![131u8];
            for _ in 0..d { v.extend_from_slice(&[108, 0, 0, 0, 1]); }
            v.push(106);
            for _ in 0..d { v.push(106); }
            v
        }
        // COMPRESSED term declaring `declared` bytes whose zlib stream inflates to `actual` zero bytes of a BINARY_EXT
        "zip_bomb" => {
            use std::io::Write;
            let declared = input["declared"].as_u64().unwrap() as u32;
            let actual = input["actual"].as_u64().unwrap() as usize;
            let mut inner = vec![109u8];
            inner.extend_from_slice(&((actual as u32).to_be_bytes()));
            inner.resize(5 + actual, 0);
            let mut e = flate2::write::ZlibEncoder::new(Vec::new(), flate2::Compression::best());
            e.write_all(&inner).unwrap();
            let z = e.finish().unwrap();
            let mut v = vec![131u8, 80];
            v.extend_from_slice(&declared.to_be_bytes());
            v.extend_from_slice(&z);
            v
        }
        _ => Vec::new(),
    }
}
