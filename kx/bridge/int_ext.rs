// bridge: External Term Format encoding of an i64 (erl_ext_dist): SMALL_INTEGER_EXT 97, INTEGER_EXT 98,
// SMALL_BIG_EXT 110 n sign d0..d(n-1).  Returns (bytes, number of bytes used).
// Kani proves  encode_integer == int_ext_bytes  for every i64; Verus proves int_ext_bytes == enc_int.
pub fn int_ext_bytes(v: i64) -> ([u8; 11], usize) {
    let mut out = [0u8; 11];
    if v >= 0 && v <= 255 {
        out[0] = 97;
        out[1] = v as u8;
        (out, 2)
    } else if v >= -2147483648 && v <= 2147483647 {
        let w = v as i32 as u32;
        out[0] = 98;
        out[1] = (w >> 24) as u8;
        out[2] = ((w >> 16) & 0xff) as u8;
        out[3] = ((w >> 8) & 0xff) as u8;
        out[4] = (w & 0xff) as u8;
        (out, 5)
    } else {
        let neg = v < 0;
        let m: u64 = if neg { (-(v as i128)) as u64 } else { v as u64 };
        let n: usize = if m >> 56 != 0 { 8 } else if m >> 48 != 0 { 7 } else if m >> 40 != 0 { 6 } else if m >> 32 != 0 { 5 }
            else if m >> 24 != 0 { 4 } else if m >> 16 != 0 { 3 } else if m >> 8 != 0 { 2 } else { 1 };
        out[0] = 110;
        out[1] = n as u8;
        out[2] = if neg { 1 } else { 0 };
        out[3] = (m & 0xff) as u8;
        out[4] = ((m >> 8) & 0xff) as u8;
        out[5] = ((m >> 16) & 0xff) as u8;
        out[6] = ((m >> 24) & 0xff) as u8;
        out[7] = ((m >> 32) & 0xff) as u8;
        out[8] = ((m >> 40) & 0xff) as u8;
        out[9] = ((m >> 48) & 0xff) as u8;
        out[10] = ((m >> 56) & 0xff) as u8;
        (out, 3 + n)
    }
}
