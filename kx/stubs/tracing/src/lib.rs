//! No-op stand-in for `tracing`, used ONLY in the Kani scratch build: kani-compiler 0.68 crashes on the
//! real macros.  The macros evaluate nothing (arguments of the real macros are pure in this code base).
#[macro_export] macro_rules! trace { ($($t:tt)*) => {{}}; }
#[macro_export] macro_rules! debug { ($($t:tt)*) => {{}}; }
#[macro_export] macro_rules! info { ($($t:tt)*) => {{}}; }
#[macro_export] macro_rules! warn { ($($t:tt)*) => {{}}; }
#[macro_export] macro_rules! error { ($($t:tt)*) => {{}}; }
