// Kani harnesses for conversions between the owned and the zero-copy term (borrowed.rs): identifiers keep their
// raw node-local bytes (C10)
use super::*;

fn pid(raw: bool, x: u8) -> ExternalPid {
    ExternalPid { node: Atom { name: std::sync::Arc::from("n@h") }, id: kani::any(), serial: kani::any(), creation: kani::any(),
                  local_ext_bytes: if raw { Some(bytes::Bytes::from(vec![x, 88])) } else { None } }
}

#[kani::proof]
#[kani::unwind(12)]
fn to_owned_and_from_owned_keep_raw_bytes__bounded_depth0() {
    let p = pid(kani::any(), kani::any());
    let want = p.local_ext_bytes.clone();
    let o = OwnedTerm::Pid(p.clone());
    let b = BorrowedTerm::from(&o);
    let back = b.to_owned();
    match &back { OwnedTerm::Pid(q) => { assert!(q.local_ext_bytes == want); assert!(*q == p); } _ => assert!(false) }
    std::mem::forget(b); std::mem::forget(back); std::mem::forget(o);
}
