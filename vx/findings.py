"""Known-findings file and native replay of witnesses (DESIGN.md 2.4/2.5)."""
import os
import re
import json
import subprocess
import threading

VERIF = os.path.dirname(os.path.dirname(os.path.abspath(__file__)))
KF = os.path.join(VERIF, 'KNOWN_FINDINGS.txt')
_build_lock = threading.Lock()
_built = [False]


def load(pid=None):
    res = []
    if not os.path.exists(KF):
        return res
    for ln in open(KF):
        ln = ln.strip()
        if not ln.startswith('finding:'):
            continue
        body, _, what = ln[len('finding:'):].partition(' :: ')
        kv = dict(w.split('=', 1) for w in body.split() if '=' in w)
        kv['what'] = what.strip()
        if pid is None or kv.get('property') == pid:
            res.append(kv)
    return res


def replay_bin():
    """build (once per process) the replay binary against /repo's current tree"""
    with _build_lock:
        tgt = os.path.join(VERIF, 'out', 'replay-target')
        crate = os.path.join(VERIF, 'replay')
        repo = os.environ.get('VERIF_REPO', '/repo')
        if repo != '/repo':
            # a second tree (regressions run side by side): a copy of the replay crate whose path dependencies point there
            import hashlib
            import shutil
            tag = hashlib.md5(repo.encode()).hexdigest()[:8]
            tgt = os.path.join(VERIF, 'out', 'replay-target-' + tag)
            alt = os.path.join(VERIF, 'out', 'replay-crate-' + tag)
            if not _built[0]:
                shutil.rmtree(alt, ignore_errors=True)
                shutil.copytree(crate, alt)
                mt = open(os.path.join(alt, 'Cargo.toml')).read().replace('"/repo/', '"%s/' % repo.rstrip('/'))
                open(os.path.join(alt, 'Cargo.toml'), 'w').write(mt)
            crate = alt
        if not _built[0]:
            env = dict(os.environ, CARGO_NET_OFFLINE='true', CARGO_TARGET_DIR=tgt)
            p = subprocess.run(['cargo', 'build', '--offline', '--manifest-path', os.path.join(crate, 'Cargo.toml')],
                               capture_output=True, text=True, env=env)
            if p.returncode != 0:
                raise RuntimeError('replay build failed: ' + p.stderr[-1500:])
            _built[0] = True
        return os.path.join(tgt, 'debug', 'verif_replay')


def replay_witness(witness, timeout=120):
    """witness: dict(scenario, input).  returns dict(reproduced: bool|None, observed)"""
    os.makedirs(os.path.join(VERIF, 'out', 'replay'), exist_ok=True)
    path = os.path.join(VERIF, 'out', 'replay', 'w-%d-%d.json' % (os.getpid(), threading.get_ident()))
    with open(path, 'w') as f:
        json.dump(witness, f)
    return replay_path(path, timeout)


def replay_path(path, timeout=120):
    try:
        exe = replay_bin()
        p = subprocess.run([exe, path], capture_output=True, text=True, timeout=timeout)
    except Exception as e:  # build failure / timeout
        return {'reproduced': None, 'observed': 'replay could not run: %s' % e}
    out = p.stdout.strip().split('\n')[-1] if p.stdout.strip() else ''
    try:
        o = json.loads(out)
    except Exception:
        # process died (abort, stack overflow): that is an observation too
        return {'reproduced': p.returncode not in (0, 2), 'observed': 'process exit %s: %s' % (p.returncode, p.stderr.strip()[-300:])}
    return {'reproduced': o.get('holds') is False, 'observed': o.get('observed')}


def replay_known(f):
    """stored witness must still fail with the recorded observation"""
    wpath = os.path.join(VERIF, f['witness'])
    w = json.load(open(wpath))
    r = replay_path(wpath)
    if not r['reproduced']:
        return False, 'postcondition now holds on the stored witness: %s' % json.dumps(r['observed'])[:300]
    exp = w.get('expect_observed')
    if exp is not None and exp != r['observed']:
        return False, 'observed %s, recorded %s' % (json.dumps(r['observed'])[:300], json.dumps(exp)[:300])
    return True, r['observed']


def replay_file(path):
    d = json.load(open(path))
    if 'scenario' in d and d.get('scenario'):
        r = replay_witness({'scenario': d['scenario'], 'input': d.get('input')})
        print(json.dumps(r))
        return 1 if r['reproduced'] else (0 if r['reproduced'] is False else 2)
    print('replay file carries no concrete input (no-failing-input-found); failed obligations:')
    for o in d.get('obligations', []):
        print(' -', o['id'], ':', o['detail'][:300])
        vo = o.get('verifier_output')
        if isinstance(vo, str):
            print('   ' + vo.strip().replace('\n', '\n   ')[:1500])
        else:
            for t in (vo or [])[:3]:
                print('   ' + (t if isinstance(t, str) else json.dumps(t))[:600])
        w = o.get('witness')
        if w and w.get('scenario'):
            r = replay_witness({'scenario': w['scenario'], 'input': w.get('input')})
            print('   replayed witness:', json.dumps(r)[:600])
    return 1
