// ---- prelude strs.rs: `String`/`str` are replaced (declared rule T1) by `Str`, a byte-string with the same
// observable bytes; UTF-8 validity is not modelled.  Assumed: as_bytes/len/is_empty agree with the bytes. ----
pub struct Str { pub b: Vec<u8> }
impl Str {
    pub open spec fn view(&self) -> Seq<u8> { self.b@ }
    #[verifier::external_body] pub fn as_bytes(&self) -> (r: &[u8]) ensures r@ == self@ { unimplemented!() }
    #[verifier::external_body] pub fn len(&self) -> (r: usize) ensures r == self@.len() { unimplemented!() }
    #[verifier::external_body] pub fn is_empty(&self) -> (r: bool) ensures r == (self@.len() == 0) { unimplemented!() }
}
// message texts are not modelled (R4): every format!/to_string result is an arbitrary Str
#[verifier::external_body] pub fn fmt_shim() -> (r: Str) { unimplemented!() }
// format!("..{}..", a, b, ..) with opts fmt-keep-args (rule R4): the text is an uninterpreted function of the
// argument VALUES and of the number of arguments (u32 arguments; decimal formatting)
pub uninterp spec fn fmt1_spec(a: u32) -> Seq<u8>;
pub uninterp spec fn fmt2_spec(a: u32, b: u32) -> Seq<u8>;
pub uninterp spec fn fmt3_spec(a: u32, b: u32, c: u32) -> Seq<u8>;
pub uninterp spec fn fmt4_spec(a: u32, b: u32, c: u32, d: u32) -> Seq<u8>;
#[verifier::external_body] pub fn fmt1(a: u32) -> (r: Str) ensures r@ == fmt1_spec(a) { unimplemented!() }
#[verifier::external_body] pub fn fmt2(a: u32, b: u32) -> (r: Str) ensures r@ == fmt2_spec(a, b) { unimplemented!() }
#[verifier::external_body] pub fn fmt3(a: u32, b: u32, c: u32) -> (r: Str) ensures r@ == fmt3_spec(a, b, c) { unimplemented!() }
#[verifier::external_body] pub fn fmt4(a: u32, b: u32, c: u32, d: u32) -> (r: Str) ensures r@ == fmt4_spec(a, b, c, d) { unimplemented!() }
