//! Replays a recorded witness (JSON) against the real crates of /repo through
//! their public API and evaluates the violated postcondition natively.
//! Output: one JSON object {"scenario":..,"holds":bool,"observed":..}; exit 0 if
//! the postcondition holds on the witness, 3 if it is violated (reproduced).
use serde_json::{json, Value};
use std::panic;

mod scenarios;
mod peer;

/// counting allocator: largest single request and number of bytes currently live / peak
pub mod alloc_probe {
    use std::alloc::{GlobalAlloc, Layout, System};
    use std::sync::atomic::{AtomicUsize, Ordering};
    pub static MAX_REQ: AtomicUsize = AtomicUsize::new(0);
    pub static LIVE: AtomicUsize = AtomicUsize::new(0);
    pub static PEAK: AtomicUsize = AtomicUsize::new(0);
    pub struct Probe;
    unsafe impl GlobalAlloc for Probe {
        unsafe fn alloc(&self, l: Layout) -> *mut u8 {
            MAX_REQ.fetch_max(l.size(), Ordering::Relaxed);
            let live = LIVE.fetch_add(l.size(), Ordering::Relaxed) + l.size();
            PEAK.fetch_max(live, Ordering::Relaxed);
            unsafe { System.alloc(l) }
        }
        unsafe fn dealloc(&self, p: *mut u8, l: Layout) {
            LIVE.fetch_sub(l.size(), Ordering::Relaxed);
            unsafe { System.dealloc(p, l) }
        }
        unsafe fn realloc(&self, p: *mut u8, l: Layout, n: usize) -> *mut u8 {
            MAX_REQ.fetch_max(n, Ordering::Relaxed);
            if n > l.size() {
                let live = LIVE.fetch_add(n - l.size(), Ordering::Relaxed) + (n - l.size());
                PEAK.fetch_max(live, Ordering::Relaxed);
            } else {
                LIVE.fetch_sub(l.size() - n, Ordering::Relaxed);
            }
            unsafe { System.realloc(p, l, n) }
        }
    }
    pub fn reset() {
        MAX_REQ.store(0, Ordering::Relaxed);
        PEAK.store(LIVE.load(Ordering::Relaxed), Ordering::Relaxed);
    }
    pub fn max_req() -> usize { MAX_REQ.load(Ordering::Relaxed) }
}
#[global_allocator]
static GLOBAL: alloc_probe::Probe = alloc_probe::Probe;


fn main() {
    let path = std::env::args().nth(1).expect("usage: verif_replay <witness.json>");
    let w: Value = serde_json::from_str(&std::fs::read_to_string(&path).expect("read witness")).expect("json");
    let scenario = w["scenario"].as_str().unwrap_or("").to_string();
    panic::set_hook(Box::new(|_| {}));
    let input = w["input"].clone();
    let res = panic::catch_unwind(move || scenarios::run(&scenario, &input));
    let out = match res {
        Ok(Some((holds, observed))) => json!({"scenario": w["scenario"], "holds": holds, "observed": observed}),
        Ok(None) => json!({"scenario": w["scenario"], "holds": Value::Null, "observed": "unknown scenario"}),
        Err(e) => {
            let msg = e.downcast_ref::<String>().cloned().or_else(|| e.downcast_ref::<&str>().map(|s| s.to_string())).unwrap_or_default();
            json!({"scenario": w["scenario"], "holds": false, "observed": format!("panic: {msg}")})
        }
    };
    println!("{}", out);
    match out["holds"].as_bool() {
        Some(true) => std::process::exit(0),
        Some(false) => std::process::exit(3),
        None => std::process::exit(2),
    }
}
