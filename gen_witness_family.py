#!/usr/bin/env python3
"""Fixed family of hand-encoded External Term Format inputs with the value the format assigns to them, written from
erl_ext_dist by an encoder that shares nothing with the library (this file).  Used ONLY as the attached witness search /
bounded stand-in of C03 and C13 (check: after a verifier rejection, or when a unit became unreadable)."""
import json, struct

def be(n, w): return list(n.to_bytes(w, 'big'))
def atom(s): b = s.encode(); return [119, len(b)] + list(b)
cases = []
def add(body, expect, **kw): cases.append(dict(bytes=[131] + body, expect=expect, **kw))

# integers, all widths incl. non-minimal
add([97, 0], {'int': 0}); add([97, 255], {'int': 255})
add([98] + be(2**32 - 1, 4), {'int': -1}); add([98] + be(2**31, 4), {'int': -2**31}); add([98] + be(300, 4), {'int': 300})
add([110, 5, 0, 1, 2, 3, 4, 5], {'big': {'neg': False, 'digits': [1, 2, 3, 4, 5]}})
add([110, 8, 1, 0, 0, 0, 0, 0, 0, 0, 128], {'big': {'neg': True, 'digits': [0, 0, 0, 0, 0, 0, 0, 128]}})
add([111] + be(9, 4) + [0] + [9, 8, 7, 6, 5, 4, 3, 2, 1], {'big': {'neg': False, 'digits': [9, 8, 7, 6, 5, 4, 3, 2, 1]}})
# floats: NEW_FLOAT_EXT and the 31-byte text form
for x in (0.1, -2.5e300, 3.14, 1.0e-300):
    add([70] + list(struct.pack('>d', x)), {'float': x})
    t = ('%.20e' % x).encode(); add([99] + list(t) + [0] * (31 - len(t)), {'float': x})
# atoms: four tags, Latin-1 bytes >= 0x80
add([119, 2, 111, 107], {'atom': 'ok'}); add([118, 0, 2, 111, 107], {'atom': 'ok'})
add([115, 2, 233, 65], {'atom': 'éA'}); add([100, 0, 3, 252, 98, 255], {'atom': 'übÿ'})
add([119, 2, 195, 169], {'atom': 'é'})
# Latin-1 tags whose bytes happen to be valid UTF-8: still one character per byte
add([100, 0, 2, 195, 169], {'atom': 'Ã©'}); add([115, 2, 194, 181], {'atom': 'Âµ'})
# strings / lists / tuples
add([107, 0, 3, 1, 200, 255], {'list': [{'int': 1}, {'int': 200}, {'int': 255}]})
add([108] + be(2, 4) + [97, 1] + atom('a') + [106], {'list': [{'int': 1}, {'atom': 'a'}]})
add([108] + be(1, 4) + [97, 1, 97, 2], {'improper': [[{'int': 1}], {'int': 2}]})
add([106], 'nil')
add([104, 3, 97, 1, 97, 2, 97, 3], {'tuple': [{'int': 1}, {'int': 2}, {'int': 3}]})
add([105] + be(2, 4) + atom('x') + [106], {'tuple': [{'atom': 'x'}, 'nil']})
# binaries
add([109] + be(3, 4) + [0, 128, 255], {'bin': [0, 128, 255]})
add([77] + be(2, 4) + [3, 170, 160], {'bitbin': [[170, 160], 3]})
# maps (distinct keys of different types, nested)
add([116] + be(2, 4) + atom('a') + [97, 1] + [97, 7] + [104, 1, 106], {'map': [[{'atom': 'a'}, {'int': 1}], [{'int': 7}, {'tuple': ['nil']}]]}, map_len=2)
# nesting
add([104, 2, 108] + be(1, 4) + [104, 1, 97, 9, 106] + [116] + be(0, 4), {'tuple': [{'list': [{'tuple': [{'int': 9}]}]}, {'map': []}]})
# trailing bytes must be rejected: expect = error
cases.append(dict(bytes=[131, 97, 1, 0], expect_error=True))
cases.append(dict(bytes=[131, 104, 1, 97, 1, 97, 2], expect_error=True))

# COMPRESSED (the replay crate deflates `inner`): exactly one term inside
cases.append(dict(gen='compressed', inner=[104, 2, 97, 1, 97, 2], expect={'tuple': [{'int': 1}, {'int': 2}]}))
cases.append(dict(gen='compressed', inner=[97, 1, 97, 2], expect_error=True))
cases.append(dict(gen='compressed', inner=[97, 7], after=[0], expect_error=True))                       # bytes after a compressed term
cases.append(dict(gen='compressed', inner=[97, 7], wrap_tuple2_then=[97, 9], expect={'tuple': [{'int': 7}, {'int': 9}]}))   # a compressed element followed by another

p = json.load(open('/verif/props.json'))
p['C03']['witness_search'] = [{'scenario': 'decode_value', 'input': c} for c in cases]
legacy_top = (99, 100, 115)
p['C13']['witness_search'] = [{'scenario': 'decode_value', 'input': dict(c, also_borrowed=True)} for c in cases
                               if 'bytes' in c and c['bytes'][1] != 115 and not c.get('expect_error')] + \
                              [{'scenario': 'decode_value', 'input': dict(c, also_borrowed=True)} for c in cases if c.get('expect_error') and 'bytes' in c]
json.dump(p, open('/verif/props.json', 'w'), indent=1)
print(len(cases), 'cases')

# ---- C07: send-side frames in pass-through mode, expected bytes from this file's own encoder ----
def satom(s): b = s.encode(); return [119, len(b)] + list(b)
def epid(p):
    if p.get('raw') is not None: return [121] + p['raw']
    return [88] + satom(p['node']) + be(p['id'], 4) + be(p['serial'], 4) + be(p['creation'], 4)
def eref(r): return [90] + be(len(r['ids']), 2) + satom(r['node']) + be(r['creation'], 4) + sum([be(x, 4) for x in r['ids']], [])
def eint(n):
    if 0 <= n <= 255: return [97, n]
    if -2**31 <= n < 2**31: return [98] + list(n.to_bytes(4, 'big', signed=True))
    m = abs(n); d = []
    while m: d.append(m & 255); m >>= 8
    return [110, len(d), 1 if n < 0 else 0] + d
def etuple(xs): return [104, len(xs)] + sum(xs, [])
def passthrough(control, payload=None): return [112, 131] + control + (([131] + payload) if payload is not None else [])
A = {'node': 'me@127.0.0.1', 'id': 7, 'serial': 0, 'creation': 1}
P = {'node': 'peer@127.0.0.1', 'id': 41, 'serial': 2, 'creation': 3}
inner = [88] + satom(P['node']) + be(41, 4) + be(2, 4) + be(3, 4)
PL1 = dict(P, raw=[1, 2, 3, 4, 5, 6, 7, 8] + inner)
PL2 = dict(P, raw=[9, 9, 9, 9, 9, 9, 9, 9] + inner)
R = {'node': 'me@127.0.0.1', 'creation': 1, 'ids': [10, 20, 30]}
ok = satom('ok')
def send(to): return {'op': 'send', 'from': A, 'to': to, 'payload': {'atom': 'ok'}, 'expect_frame': passthrough(etuple([eint(2), satom(''), epid(to)]), ok)}
fam07 = [
 {'scenario': 'send_frames', 'input': {'ops': [send(P)]}},
 {'scenario': 'send_frames', 'input': {'ops': [send(PL1), send(P), send(PL2), send(PL2)]}},     # equal pids, different wire forms
 {'scenario': 'send_frames', 'input': {'ops': [
    {'op': 'reg_send', 'from': A, 'name': 'logger', 'payload': {'tuple': [{'int': 1}, {'atom': 'x'}]}, 'expect_frame': passthrough(etuple([eint(6), epid(A), satom(''), satom('logger')]), etuple([eint(1), satom('x')]))},
    {'op': 'link', 'from': A, 'to': P, 'expect_frame': passthrough(etuple([eint(1), epid(A), epid(P)]))},
    {'op': 'unlink', 'from': A, 'to': P, 'id': 2**40 + 5, 'expect_frame': passthrough(etuple([eint(35), eint(2**40 + 5), epid(A), epid(P)]))},
    {'op': 'monitor', 'from': A, 'to': P, 'ref': R, 'expect_frame': passthrough(etuple([eint(19), epid(A), epid(P), eref(R)]))},
    {'op': 'demonitor', 'from': A, 'to': P, 'ref': R, 'expect_frame': passthrough(etuple([eint(20), epid(A), epid(P), eref(R)]))},
 ]}},
 # distribution-header mode: what the header writer emits is read by the replay crate's independent header reader
 # (even and odd numbers of distinct atoms: the flag field's length depends on the parity)
 {'scenario': 'dist_header_write', 'input': {'term': {'tuple': [{'atom': 'a'}, {'atom': 'b'}]}, 'atoms': ['a', 'b']}},
 {'scenario': 'dist_header_write', 'input': {'term': {'tuple': [{'atom': 'a'}, {'atom': 'b'}, {'atom': 'c'}, {'atom': 'd'}]}, 'atoms': ['a', 'b', 'c', 'd']}},
 {'scenario': 'dist_header_write', 'input': {'term': {'atom': 'a'}, 'atoms': ['a']}},
]
p = json.load(open('/verif/props.json'))
p['C07']['witness_search'] = fam07
json.dump(p, open('/verif/props.json', 'w'), indent=1)
print(len(fam07), 'send-side cases')
