// Kani harnesses for crates/edp_client/src/control.rs
use super::*;

/// unlink ids carried as big integers: accepted exactly when the value fits 64 bits, with that value
/// (every digit vector of up to 9 digits; 9 digits is where a 65th bit can first appear)
#[kani::proof]
#[kani::unwind(12)]
fn unlink_id_from_term__bounded_9digits() {
    let n: usize = kani::any();
    kani::assume(n <= 9);
    let d: [u8; 9] = kani::any();
    let t = OwnedTerm::BigInt(BigInt { sign: Sign::Positive, digits: d[..n].to_vec() });
    let r = unlink_id_from_term(&t);
    let mut v: u128 = 0;
    let mut k = 0;
    while k < 9 {
        if k < n { v |= (d[k] as u128) << (8 * k); }
        k += 1;
    }
    if v <= u64::MAX as u128 { assert!(r == Some(v as u64)); } else { assert!(r.is_none()); }
    std::mem::forget(t);
}

/// ... and every id survives to_term -> from_term (all u64)
#[kani::proof]
#[kani::unwind(12)]
fn unlink_id_term_roundtrip__complete() {
    let id: u64 = kani::any();
    let t = unlink_id_to_term(id);
    assert!(unlink_id_from_term(&t) == Some(id));
    match &t {
        OwnedTerm::Integer(i) => assert!(*i >= 0 && *i as u64 == id),
        OwnedTerm::BigInt(b) => assert!(id > i64::MAX as u64 && b.sign == Sign::Positive && b.digits.len() == 8),
        _ => assert!(false),
    }
    std::mem::forget(t);
}
