"""Run Verus on a generated unit and attribute diagnostics to named obligations."""
import os
import re
import sys
import json
import time
import subprocess

sys.path.insert(0, os.path.dirname(os.path.abspath(__file__)))
import extract

VERIF = os.path.dirname(os.path.dirname(os.path.abspath(__file__)))
OUT = os.path.join(VERIF, 'out')

FAIL_PATTERNS = [
    ('postcondition not satisfied', 'ensures'),
    ('precondition not satisfied', 'call-requires'),
    ('assertion failed', 'assert'),
    ('possible arithmetic underflow/overflow', 'overflow'),
    ('possible division by zero', 'div0'),
    ('invariant not satisfied before loop', 'inv-entry'),
    ('invariant not satisfied at end of loop body', 'inv-preserve'),
    ('decreases not satisfied', 'terminates'),
    ('could not prove termination', 'terminates'),
    ('possible bit shift underflow/overflow', 'overflow'),
    ('unable to prove assertion safety condition', 'overflow'),
    ('loop must have a decreases clause', 'terminates'),
    # built-in index / union-field checks of this Verus version (native `a[i]` on slices and arrays)
    ('precondition not met', 'call-requires'),
    ('requirement not met', 'call-requires'),
    ('loop invariant not satisfied', 'inv-preserve'),
    ('bitvector assertion not satisfied', 'assert'),
]


def run_unit(unit_name, defines=(), canary=None, seed=0, rlimit=None, tag='main', timeout=900):
    """runs the unit; if rustc rejects text that WE inserted into a function (a proof hint or invariant naming a local
    that no longer exists), the hints of that function are dropped (anchors lost) and the unit is run once more"""
    res = _run_unit(unit_name, defines, canary, seed, rlimit, tag, timeout, ())
    if res.get('status') == 'undecided' and res.get('hint_errors'):
        res2 = _run_unit(unit_name, defines, canary, seed, rlimit, tag, timeout, tuple(sorted(res['hint_errors'])))
        res2['hints_dropped_for'] = sorted(res['hint_errors'])
        return res2
    return res


def _run_unit(unit_name, defines=(), canary=None, seed=0, rlimit=None, tag='main', timeout=900, drop_hints=()):
    """returns dict(status, failures, verified, errors, time_s, out_path, meta)"""
    upath = os.path.join(VERIF, 'vx', 'units', unit_name + '.vu')
    # one directory per check process: concurrent checks of different properties share units, not output files
    rundir = os.path.join(OUT, 'units', 'run-%d' % os.getpid()) if os.environ.get('VERIF_SHARED_OUT') != '1' else os.path.join(OUT, 'units')
    os.makedirs(rundir, exist_ok=True)
    opath = os.path.join(rundir, '%s__%s.rs' % (unit_name, tag))
    res = {'unit': unit_name, 'tag': tag, 'defines': list(defines), 'canary': canary, 'out_path': opath}
    t0 = time.time()
    try:
        meta = extract.build(upath, opath, defines, canary, drop_hints)
    except (extract.LostAnchor, extract.rules.Unsupported) as e:
        res.update(status='undecided', reason='lost anchor / unsupported: %s' % e, failures=[], meta=None, time_s=time.time() - t0)
        return res
    res['meta'] = meta
    cmd = ['verus', '--edition', '2024', opath, '--multiple-errors', '100' if canary else '20', '--output-json', '--time', '--error-format=json']
    cmd += ['--rlimit', str(rlimit or 40)]
    if seed:
        cmd += ['--smt-option', 'smt.random_seed=%d' % (seed % 1000000), '--smt-option', 'sat.random_seed=%d' % (seed % 1000000)]
    res['cmd'] = ' '.join(cmd)
    try:
        p = subprocess.run(cmd, capture_output=True, text=True, timeout=timeout, cwd=os.path.dirname(opath))
    except subprocess.TimeoutExpired:
        res.update(status='undecided', reason='verus timeout %ds' % timeout, failures=[], time_s=time.time() - t0)
        return res
    res['time_s'] = time.time() - t0
    try:
        oj = json.loads(p.stdout)
    except Exception:
        oj = {}
    vr = oj.get('verification-results', {})
    res['verified'] = vr.get('verified', 0)
    res['errors'] = vr.get('errors', 0)
    res['smt_time_ms'] = oj.get('times-ms', {}).get('smt', {}).get('total') if isinstance(oj.get('times-ms', {}).get('smt'), dict) else None
    res['verus_total_ms'] = oj.get('times-ms', {}).get('total')
    diags = []
    for ln in p.stderr.split('\n'):
        ln = ln.strip()
        if ln.startswith('{'):
            try:
                diags.append(json.loads(ln))
            except Exception:
                pass
    with open(opath + '.stderr', 'w') as f:
        f.write(p.stderr)
    lines = meta['lines']
    failures, hard = [], []
    for d in diags:
        if d.get('level') != 'error':
            continue
        msg = d.get('message', '')
        if msg.startswith('aborting due to'):
            continue
        kind = None
        for pat, k in FAIL_PATTERNS:
            if pat in msg:
                kind = k
                break
        if 'rlimit' in msg.lower() or 'resource limit' in msg.lower():
            # in a canary run only the rejection of the canaries matters: after an injected `assert(false)`
            # the rest of the function is checked under a false assumption and may wander
            if not canary:
                # the solver gave up inside ONE function: no verdict for that function's obligations (the check treats it
                # as tentative); it must not hide a definite rejection elsewhere in the unit
                fn_hit = None
                for sp in d.get('spans', []):
                    lm = lines.get(str(sp['line_start'])) or {}
                    if lm.get('fn'):
                        fn_hit = lm['fn']
                        break
                if fn_hit:
                    failures.append({'fn': fn_hit, 'clause': 'rlimit', 'kind': 'rlimit', 'message': 'resource limit exceeded (no verdict)',
                                     'out_line': None, 'src': None, 'rendered': d.get('rendered', '')})
                else:
                    hard.append('rlimit: ' + msg)
            else:
                # the solver gave up before proving the injected `assert(false)`: the canary is NOT proved
                for sp in d.get('spans', []):
                    lm = lines.get(str(sp['line_start'])) or {}
                    if lm.get('fn'):
                        for _ in range(8):
                            failures.append({'fn': lm['fn'], 'clause': 'CANARY', 'kind': 'rlimit', 'message': 'canary not proved (rlimit)',
                                             'out_line': sp['line_start'], 'src': None})
                        break
            continue
        if kind is None:
            hard.append(msg + ' @ ' + ','.join('%s:%s' % (s['file_name'], s['line_start']) for s in d.get('spans', [])[:2]))
            # a compile error inside text inserted by us (proof / invariant / contract of fn F)?
            for s in d.get('spans', []):
                if s.get('is_primary'):
                    lm = lines.get(str(s['line_start'])) or {}
                    if lm.get('fn') and lm.get('section') in ('proof', 'invariant', 'decreases') and 'src' not in lm:
                        res.setdefault('hint_errors', set()).add(lm['fn'])
                    else:
                        res['non_hint_error'] = True
            continue
        prim = [s for s in d.get('spans', []) if s.get('is_primary')]
        sec = [s for s in d.get('spans', []) if not s.get('is_primary')]
        pl = lines.get(str(prim[0]['line_start'])) if prim else None
        fn = (pl or {}).get('fn')
        clause = None
        src = (pl or {}).get('src')
        for s in prim + sec:
            lm = lines.get(str(s['line_start']))
            if lm and lm.get('clause') and lm.get('section') in ('ensures', 'requires', 'invariant', 'decreases', 'proof', 'canary'):
                clause = lm['clause']
                if fn is None:
                    fn = lm.get('fn')
                break
        if kind == 'call-requires':
            # primary = call site; secondary = the callee's requires (maybe in prelude)
            callee_clause = None
            for s in sec:
                lm = lines.get(str(s['line_start']))
                if lm:
                    callee_clause = (lm.get('fn') or lm.get('prelude') or 'raw') + ':' + (lm.get('clause') or 'requires')
            clause = 'call-requires(%s)' % (callee_clause or (sec[0]['text'][0]['text'].strip() if sec and sec[0].get('text') else '?'))
        if clause is None:
            clause = 'safety:' + kind
        # for src: if primary is in contract, use secondary body span
        if src is None:
            for s in sec + prim:
                lm = lines.get(str(s['line_start']))
                if lm and lm.get('src'):
                    src = lm['src']
                    break
        failures.append({'fn': fn, 'clause': clause, 'kind': kind, 'message': msg,
                         'out_line': prim[0]['line_start'] if prim else None, 'src': src,
                         'rendered': d.get('rendered', '')})
    res['failures'] = failures
    if res.get('non_hint_error'):
        res.pop('hint_errors', None)
    if hard or vr.get('encountered-vir-error') or not vr:
        res['status'] = 'undecided'
        res['reason'] = '; '.join(hard) if hard else ('verus produced no result: ' + p.stderr[-2000:])
    elif failures or not vr.get('success'):
        res['status'] = 'fail'
        if not failures:
            res['status'] = 'undecided'
            res['reason'] = 'verus failed without attributable diagnostics: ' + p.stderr[-2000:]
    else:
        res['status'] = 'ok'
    return res


if __name__ == '__main__':
    r = run_unit(sys.argv[1], sys.argv[2:])
    r2 = {k: v for k, v in r.items() if k not in ('meta',)}
    if r.get('status') == 'undecided':
        try:
            for ln in open(r['out_path'] + '.stderr'):
                if ln.startswith('{'):
                    d = json.loads(ln)
                    if d.get('level') == 'error':
                        print(d.get('rendered'))
        except Exception:
            pass
    for f in r2.get('failures', []):
        print(f['rendered'])
        f.pop('rendered')
    print(json.dumps(r2, indent=1))
