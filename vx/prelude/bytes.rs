// ---- prelude bytes.rs: assumed contracts of the `bytes` crate (each Kani-checked against bytes 1.11, harness group dep_bytes) ----
pub open spec fn be16(x: u16) -> Seq<u8> { seq![(x >> 8) as u8, (x & 0xff) as u8] }
pub open spec fn be32(x: u32) -> Seq<u8> { seq![(x >> 24) as u8, ((x >> 16) & 0xff) as u8, ((x >> 8) & 0xff) as u8, (x & 0xff) as u8] }
pub open spec fn be64(x: u64) -> Seq<u8> {
    seq![(x >> 56) as u8, ((x >> 48) & 0xff) as u8, ((x >> 40) & 0xff) as u8, ((x >> 32) & 0xff) as u8,
         ((x >> 24) & 0xff) as u8, ((x >> 16) & 0xff) as u8, ((x >> 8) & 0xff) as u8, (x & 0xff) as u8]
}
pub open spec fn le64(x: u64) -> Seq<u8> {
    seq![(x & 0xff) as u8, ((x >> 8) & 0xff) as u8, ((x >> 16) & 0xff) as u8, ((x >> 24) & 0xff) as u8,
         ((x >> 32) & 0xff) as u8, ((x >> 40) & 0xff) as u8, ((x >> 48) & 0xff) as u8, ((x >> 56) & 0xff) as u8]
}
pub uninterp spec fn f64_be_bytes(x: f64) -> Seq<u8>;   // f64 is opaque in Verus; only the length is known
#[verifier::external_body]
pub broadcast proof fn axiom_f64_be_len(x: f64) ensures #[trigger] f64_be_bytes(x).len() == 8 {}

// anything that derefs to a byte slice in the real code (`&[u8]`, `&[u8; N]`, `&Vec<u8>`, `&Bytes`, `&BytesMut`)
pub trait AsBytes { spec fn bv(&self) -> Seq<u8>; }
impl AsBytes for [u8] { open spec fn bv(&self) -> Seq<u8> { self@ } }
impl<const N: usize> AsBytes for [u8; N] { open spec fn bv(&self) -> Seq<u8> { self@ } }
impl AsBytes for Vec<u8> { open spec fn bv(&self) -> Seq<u8> { self@ } }
impl AsBytes for BytesMut { open spec fn bv(&self) -> Seq<u8> { self@ } }
impl AsBytes for Bytes { open spec fn bv(&self) -> Seq<u8> { self@ } }

pub struct BytesMut { pub v: Vec<u8> }
impl BytesMut {
    pub open spec fn view(&self) -> Seq<u8> { self.v@ }
    #[verifier::external_body] pub fn new() -> (r: BytesMut) ensures r@ == Seq::<u8>::empty() { unimplemented!() }
    #[verifier::external_body] pub fn with_capacity(n: usize) -> (r: BytesMut) ensures r@ == Seq::<u8>::empty() { unimplemented!() }
    // a Rust allocation never exceeds isize::MAX bytes
    #[verifier::external_body] pub fn len(&self) -> (r: usize) ensures r == self@.len(), r <= isize::MAX { unimplemented!() }
    #[verifier::external_body] pub fn put_u8(&mut self, b: u8) ensures final(self)@ == old(self)@.push(b) { unimplemented!() }
    #[verifier::external_body] pub fn put_u16(&mut self, x: u16) ensures final(self)@ == old(self)@ + be16(x) { unimplemented!() }
    #[verifier::external_body] pub fn put_u32(&mut self, x: u32) ensures final(self)@ == old(self)@ + be32(x) { unimplemented!() }
    #[verifier::external_body] pub fn put_u64(&mut self, x: u64) ensures final(self)@ == old(self)@ + be64(x) { unimplemented!() }
    #[verifier::external_body] pub fn put_i32(&mut self, x: i32) ensures final(self)@ == old(self)@ + be32(x as u32) { unimplemented!() }
    #[verifier::external_body] pub fn put_f64(&mut self, x: f64) ensures final(self)@ == old(self)@ + f64_be_bytes(x) { unimplemented!() }
    #[verifier::external_body] pub fn put_slice<S: AsBytes + ?Sized>(&mut self, s: &S) ensures final(self)@ == old(self)@ + s.bv() { unimplemented!() }
    #[verifier::external_body] pub fn extend_from_slice<S: AsBytes + ?Sized>(&mut self, s: &S) ensures final(self)@ == old(self)@ + s.bv() { unimplemented!() }
    #[verifier::external_body] pub fn to_vec(&self) -> (r: Vec<u8>) ensures r@ == self@ { unimplemented!() }
    // `&buf` used as `&[u8]` (Deref) is written by rule as buf.as_slice()
    #[verifier::external_body] pub fn as_slice(&self) -> (r: &[u8]) ensures r@ == self@ { unimplemented!() }
    // buf[i] |= x  (IndexMut) is written by rule as buf.or_at(i, x)
    #[verifier::external_body] pub fn or_at(&mut self, i: usize, x: u8)
        requires i < old(self)@.len()
        ensures final(self)@ == old(self)@.update(i as int, old(self)@[i as int] | x) { unimplemented!() }
}
pub struct Bytes { pub v: Vec<u8> }
impl Bytes {
    pub open spec fn view(&self) -> Seq<u8> { self.v@ }
    #[verifier::external_body] pub fn len(&self) -> (r: usize) ensures r == self@.len() { unimplemented!() }
    #[verifier::external_body] pub fn as_slice(&self) -> (r: &[u8]) ensures r@ == self@ { unimplemented!() }
    #[verifier::external_body] pub fn copy_from_slice(s: &[u8]) -> (r: Bytes) ensures r@ == s@ { unimplemented!() }
}

// uN::to_le_bytes / from_be_bytes have const-generic array signatures that assume_specification cannot name (R5)
#[verifier::external_body] pub fn u64_to_le_bytes(x: u64) -> (r: [u8; 8]) ensures r@ == le64(x) { x.to_le_bytes() }

// value of big-/little-endian byte strings (first bytes of s)
pub open spec fn be_u16_val(s: Seq<u8>) -> u16 { ((s[0] as u16) << 8) | (s[1] as u16) }
pub open spec fn be_u32_val(s: Seq<u8>) -> u32 { ((s[0] as u32) << 24) | ((s[1] as u32) << 16) | ((s[2] as u32) << 8) | (s[3] as u32) }
pub open spec fn be_u64_val(s: Seq<u8>) -> u64 {
    ((s[0] as u64) << 56) | ((s[1] as u64) << 48) | ((s[2] as u64) << 40) | ((s[3] as u64) << 32)
    | ((s[4] as u64) << 24) | ((s[5] as u64) << 16) | ((s[6] as u64) << 8) | (s[7] as u64)
}
pub open spec fn le_u64_val(s: Seq<u8>) -> u64 {
    ((s[7] as u64) << 56) | ((s[6] as u64) << 48) | ((s[5] as u64) << 40) | ((s[4] as u64) << 32)
    | ((s[3] as u64) << 24) | ((s[2] as u64) << 16) | ((s[1] as u64) << 8) | (s[0] as u64)
}
// uN::from_be_bytes / from_le_bytes (rule R5)
#[verifier::external_body] pub fn u16_from_be_bytes(x: [u8; 2]) -> (r: u16) ensures r == be_u16_val(x@) { u16::from_be_bytes(x) }
#[verifier::external_body] pub fn u32_from_be_bytes(x: [u8; 4]) -> (r: u32) ensures r == be_u32_val(x@) { u32::from_be_bytes(x) }
#[verifier::external_body] pub fn u64_from_be_bytes(x: [u8; 8]) -> (r: u64) ensures r == be_u64_val(x@) { u64::from_be_bytes(x) }
#[verifier::external_body] pub fn u64_from_le_bytes(x: [u8; 8]) -> (r: u64) ensures r == le_u64_val(x@) { u64::from_le_bytes(x) }
