"""Declared rewrite rules (DESIGN.md §2.1).  Each rule is global: it applies
wherever its pattern matches in an extracted item; there are no per-site edits.
Every rule keeps the number of newlines so that body lines keep mapping to
/repo lines.  `apply(text, opts)` returns (new_text, {rule_id: count}).
"""
import re
from rustscan import mask, match_brace


def _keep_nl(old, new):
    d = old.count('\n') - new.count('\n')
    return new + ('\n' * d if d > 0 else '')


def _sub(rx, repl, text, counts, rid, flags=0):
    def f(m):
        counts[rid] = counts.get(rid, 0) + 1
        new = repl(m) if callable(repl) else m.expand(repl)
        return _keep_nl(m.group(0), new)
    return re.sub(rx, f, text, flags=flags)


LOG_MACROS = r'(?:tracing::|log::)?\b(?:trace|debug|info|warn|error)!'


def strip_macro_stmts(text, counts, rid, name_rx):
    """Remove statement-level `name!( ... );` (balanced)."""
    out = []
    pos = 0
    while True:
        msk = mask(text)
        m = re.compile(name_rx + r'\s*\(').search(msk, pos)
        if not m:
            break
        op = m.end() - 1
        cl = match_brace(msk, op, '(', ')')
        end = cl + 1
        k = end
        while k < len(text) and text[k] in ' \t':
            k += 1
        if k < len(text) and text[k] == ';':
            end = k + 1
        old = text[m.start():end]
        text = text[:m.start()] + _keep_nl(old, '') + text[end:]
        counts[rid] = counts.get(rid, 0) + 1
        pos = m.start()
    return text


DROP_ATTRS = r'inline|must_use|allow|doc|error|from|repr|cfg_attr|serde|non_exhaustive|track_caller|cold|deprecated|default|source|expect'
KEEP_DERIVES = ('Clone', 'Copy')


def rule_D1(text, counts, keep_derives=None):
    msk = mask(text)
    out = []
    i = 0
    res = []
    pos = 0
    for m in re.finditer(r'#\s*\[', msk):
        if m.start() < pos:
            continue
        ob = m.end() - 1
        cb = match_brace(msk, ob, '[', ']')
        inner = text[ob + 1:cb].strip()
        name = re.match(r'[A-Za-z_:]+', inner)
        name = name.group(0) if name else ''
        new = None
        if name == 'derive':
            lst = [d.strip() for d in inner[inner.find('(') + 1:inner.rfind(')')].split(',') if d.strip()]
            allowed = KEEP_DERIVES if keep_derives is None else keep_derives
            kept = [d for d in lst if d.split('::')[-1] in allowed]
            new = '#[derive(%s)]' % ', '.join(kept) if kept else ''
            if kept != lst:
                counts['D1'] = counts.get('D1', 0) + 1
        elif re.fullmatch(DROP_ATTRS, name.split('::')[-1]):
            new = ''
            counts['D1'] = counts.get('D1', 0) + 1
        if new is not None:
            res.append(text[pos:m.start()])
            res.append(_keep_nl(text[m.start():cb + 1], new))
            pos = cb + 1
    res.append(text[pos:])
    text = ''.join(res)
    # doc comments -> blank
    text = re.sub(r'(?m)^[ \t]*///.*$', '', text)
    return text


def rule_R2(text, counts):
    """`if let A = x && let B = y && c {` BODY `}` (no else) -> nested ifs."""
    while True:
        msk = mask(text)
        m = re.search(r'\bif\s+let\b', msk)
        found = False
        for m in re.finditer(r'\bif\s+let\b', msk):
            # header until '{' at depth 0
            k = m.end()
            depth = 0
            while k < len(msk):
                ch = msk[k]
                if ch in '([':
                    depth += 1
                elif ch in ')]':
                    depth -= 1
                elif ch == '{' and depth == 0:
                    break
                k += 1
            header = text[m.start() + 2:k]  # after 'if'
            hm = msk[m.start() + 2:k]
            # split on top-level &&
            parts, d, last = [], 0, 0
            j = 0
            while j < len(hm):
                ch = hm[j]
                if ch in '([{':
                    d += 1
                elif ch in ')]}':
                    d -= 1
                elif d == 0 and hm.startswith('&&', j):
                    parts.append(header[last:j])
                    last = j + 2
                    j += 1
                j += 1
            parts.append(header[last:])
            if len(parts) < 2:
                continue
            # only chains that contain more than one part where some later part is `let`
            # or a bool after a let (let-chains)
            cb = match_brace(msk, k)
            after = msk[cb + 1:cb + 40].lstrip()
            if after.startswith('else'):
                raise Unsupported('R2: let-chain with else at offset %d' % m.start())
            opens = ''.join('if %s {' % p.strip() if i == 0 else ' if %s {' % p.strip() for i, p in enumerate(parts))
            closes = '}' * (len(parts) - 1)
            old_hdr = text[m.start():k + 1]
            new_hdr = _keep_nl(old_hdr, opens)
            text = text[:m.start()] + new_hdr + text[k + 1:cb + 1] + closes + text[cb + 1:]
            counts['R2'] = counts.get('R2', 0) + 1
            found = True
            break
        if not found:
            return text


class Unsupported(Exception):
    pass


def strip_await(text, counts):
    text = _sub(r'\.await\b', '', text, counts, 'D4')
    text = _sub(r'\basync\s+(?=fn\b)', '', text, counts, 'D4')
    text = _sub(r'\basync\s+move\s*(?=\{)', '', text, counts, 'D4')
    return text


def apply(text, opts, kind='fn'):
    counts = {}
    text = rule_D1(text, counts, opts.get('keep_derives'))
    if kind in ('fn',):
        text = strip_macro_stmts(text, counts, 'D3', LOG_MACROS)
        if opts.get('sequential_await'):
            text = strip_await(text, counts)
        # R1
        text = _sub(r'\|\s*_\s*\|', '|_e|', text, counts, 'R1')
        text = _sub(r'\bfor\s+_\s+in\b', 'for _i in', text, counts, 'R1')
        # R2
        if re.search(r'\bif\s+let\b[^{;]*&&', mask(text)):
            text = rule_R2(text, counts)
        # R6: `Some(&x)` binder pattern -> `Some(x)`, later uses of x become (*x)
        text = rule_R6(text, counts)
        # R8: Entry::Vacant idiom -> contains_key / insert (a VacantEntry holds &mut to the map)
        text = _sub(r'if let Entry::Vacant\((\w+)\) = ([\w.]+)\.entry\(([^()]*)\)\s*\{\s*\1\.insert\(([^;]*)\);\s*\}',
                    r'if !\2.contains_key(&\3) { \2.insert(\3, \4); }', text, counts, 'R8')
        # R19: `.map_err(|_e| E)` (the closure ignores its argument) -> `.map_err_to(E)`: E is a pure constructor expression
        text = rule_R19(text, counts)
        # R13: `RECV.map(|v| BODY).unwrap_or(D)` -> `match RECV { Some(v) => BODY, None => D }`
        text = rule_R13(text, counts)
        # R14: `.then_with(|| E)` -> `.then(E)` (std's eager twin; E is pure and total in this code base)
        text = rule_R14(text, counts)
        # R3
        text = _sub(r'\btake\(([^()]*(?:\([^()]*\))?[^()]*)\)\(([^()]*)\)', r'take_n(\1, \2)', text, counts, 'R3')
        # R4
        text = rule_R4(text, counts, opts)
        # R4b: "literal".to_string() is a message text too
        text = _sub(r'"(?:[^"\\]|\\.)*"\s*\.to_string\(\)', 'fmt_shim()', text, counts, 'R4')
        # R10
        text = _sub(r'\bvec!\[([^;\[\]]+);\s*([^\[\]]+)\]', r'vec_from_elem(\1, \2)', text, counts, 'R10')
        # R5
        text = _sub(r'\b(u16|u32|u64|i32|i64|f64)::from_be_bytes\(', r'\1_from_be_bytes(', text, counts, 'R5')
        text = _sub(r'\b(u16|u32|u64|i32|i64|f64)::from_le_bytes\(', r'\1_from_le_bytes(', text, counts, 'R5')
    text = rule_D7(text, counts)
    # D5
    if not opts.get('keep_pub'):
        pass
    for rx, repl, rid in opts.get('extra_rules', []):
        text = _sub(rx, repl, text, counts, rid)
    return text, counts


def rule_R4(text, counts, opts):
    """format!(...) -> fmt_shim()"""
    pos = 0
    while True:
        msk = mask(text)
        m = re.compile(r'\bformat!\s*\(').search(msk, pos)
        if not m:
            return text
        op = m.end() - 1
        cl = match_brace(msk, op, '(', ')')
        old = text[m.start():cl + 1]
        new = 'fmt_shim()'
        if opts.get('fmt_keep_args'):
            # keep the arguments after the format string: fmtN(a, b, c)
            inner = text[op + 1:cl]
            im = msk[op + 1:cl]
            parts, d, last = [], 0, 0
            for j, ch in enumerate(im):
                if ch in '([{':
                    d += 1
                elif ch in ')]}':
                    d -= 1
                elif ch == ',' and d == 0:
                    parts.append(inner[last:j])
                    last = j + 1
            parts.append(inner[last:])
            args = [p.strip() for p in parts[1:] if p.strip()]
            if args:
                new = 'fmt%d(%s)' % (len(args), ', '.join(args))
        text = text[:m.start()] + _keep_nl(old, new) + text[cl + 1:]
        counts['R4'] = counts.get('R4', 0) + 1
        pos = m.start() + len(new)


def rule_R6(text, counts):
    while True:
        m = re.search(r'\b(Some|Ok)\(&([a-z_][A-Za-z0-9_]*)\)(?=\s*=[^=])', text)
        if not m:
            return text
        name = m.group(2)
        head = text[:m.start()] + '%s(%s)' % (m.group(1), name)
        tail = text[m.end():]
        # skip the `= expr` initializer up to the opening brace / `&&` / `;`
        k = re.search(r'[{;]|&&', tail)
        k = k.start() if k else 0
        tail = tail[:k] + re.sub(r'(?<![A-Za-z0-9_.])%s(?![A-Za-z0-9_])' % re.escape(name), '(*%s)' % name, tail[k:])
        text = head + tail
        counts['R6'] = counts.get('R6', 0) + 1


def rule_D7(text, counts):
    """two-argument `Result<A, B>` is std's Result even where a one-argument alias `Result<T>` is in scope"""
    out = []
    pos = 0
    for m in re.finditer(r'(?<![A-Za-z0-9_:])Result<', text):
        if m.start() < pos:
            continue
        # matching '>'
        depth = 0
        k = m.end() - 1
        end = None
        while k < len(text):
            ch = text[k]
            if ch == '<':
                depth += 1
            elif ch == '>' and text[k - 1] != '-' and text[k - 1] != '=':
                depth -= 1
                if depth == 0:
                    end = k
                    break
            elif ch in ';{':
                break
            k += 1
        if end is None:
            continue
        inner = text[m.end():end]
        d = 0
        commas = 0
        for ch in inner:
            if ch in '<([':
                d += 1
            elif ch in '>)]':
                d -= 1
            elif ch == ',' and d == 0:
                commas += 1
        if commas == 1:
            out.append(text[pos:m.start()])
            out.append('std::result::')
            pos = m.start()
            counts['D7'] = counts.get('D7', 0) + 1
    out.append(text[pos:])
    return ''.join(out)


def rule_R13(text, counts):
    """Option combinator chain with an unannotated closure -> explicit match (assumed std equivalence).
    Handles `let X = RECV .map(|v| BODY) .unwrap_or(D);` and a function body that is exactly such a chain."""
    rx = re.compile(r'\.map\(\|(\w+)\|\s*')
    pos = 0
    while True:
        msk = mask(text)
        m = rx.search(msk, pos)
        if not m:
            return text
        op = msk.find('(', m.start())
        cl = match_brace(msk, op, '(', ')')
        after = re.match(r'\s*\.unwrap_or\(', msk[cl + 1:])
        if not after:
            pos = m.end()
            continue
        uo = cl + 1 + after.end() - 1
        ucl = match_brace(msk, uo, '(', ')')
        body = text[m.end():cl]
        dflt = text[uo + 1:ucl]
        # receiver: back to `=` of a let, or to the `{` that opens the fn body
        k = m.start()
        depth = 0
        start = None
        while k > 0:
            k -= 1
            ch = msk[k]
            if ch in ')]}':
                depth += 1
            elif ch in '([{':
                if depth == 0:
                    start = k + 1
                    break
                depth -= 1
            elif ch == '=' and depth == 0 and msk[k - 1] not in '=!<>' and msk[k + 1] != '=':
                start = k + 1
                break
            elif ch == ';' and depth == 0:
                start = k + 1
                break
        if start is None:
            pos = m.end()
            continue
        recv = text[start:m.start()]
        old = text[start:ucl + 1]
        new = ' match %s { Some(%s) => %s, None => %s }' % (recv.strip(), m.group(1), body.strip(), dflt.strip())
        text = text[:start] + _keep_nl(old, new) + text[ucl + 1:]
        counts['R13'] = counts.get('R13', 0) + 1
        pos = start + len(new)


def rule_R14(text, counts):
    while True:
        msk = mask(text)
        m = re.search(r'\.then_with\(\|\|\s*', msk)
        if not m:
            return text
        op = msk.find('(', m.start())
        cl = match_brace(msk, op, '(', ')')
        body = text[m.end():cl]
        new = '.then(' + body + ')'
        text = text[:m.start()] + _keep_nl(text[m.start():cl + 1], new) + text[cl + 1:]
        counts['R14'] = counts.get('R14', 0) + 1


def rule_R19(text, counts):
    pos = 0
    while True:
        msk = mask(text)
        m = re.compile(r'\.map_err\(\|_e\|\s*').search(msk, pos)
        if not m:
            return text
        op = msk.find('(', m.start())
        cl = match_brace(msk, op, '(', ')')
        body = text[m.end():cl]
        if re.search(r'\b_e\b', mask(body)) or re.search(r'\breturn\b|\?', mask(body)):
            pos = m.end()
            continue
        new = '.map_err_to(' + body + ')'
        text = text[:m.start()] + _keep_nl(text[m.start():cl + 1], new) + text[cl + 1:]
        counts['R19'] = counts.get('R19', 0) + 1
        pos = m.start() + len(new)
