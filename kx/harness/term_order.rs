// Kani harnesses for the numeric helpers and scalar arms of `impl Ord/Hash for OwnedTerm` (term.rs)
use super::*;
extern crate alloc;
include!(concat!(env!("VERIF_DIR"), "/kx/bridge/exact_cmp.rs"));

fn ord_i8(o: Ordering) -> i8 { match o { Ordering::Less => -1, Ordering::Equal => 0, Ordering::Greater => 1 } }

/// compare_int_float / compare_float_int are exact for every i64 and every non-NaN f64 (loop-free: complete)
#[kani::proof]
fn compare_int_float__complete() {
    let i: i64 = kani::any();
    let bits: u64 = kani::any();
    let f = f64::from_bits(bits);
    kani::assume(!f.is_nan());
    kani::cover!(i > (1i64 << 53) && f > 9.0e15);
    let want = exact_cmp_i64_f64(i, bits);
    assert!(ord_i8(compare_int_float(i, f)) == want);
    assert!(ord_i8(compare_float_int(f, i)) == -want);
}

/// bigint_to_u64 is the little-endian value of up to 8 digits (every length 0..=8, every digit: complete for its contract)
#[kani::proof]
#[kani::unwind(10)]
fn bigint_to_u64__complete() {
    let n: usize = kani::any();
    kani::assume(n <= 8);
    let d: [u8; 8] = kani::any();
    let big = BigInt { sign: Sign::Positive, digits: d[..n].to_vec() };
    let mut want: u64 = 0;
    let mut k = 0;
    while k < 8 {
        if k < n { want |= (d[k] as u64) << (8 * k); }
        k += 1;
    }
    assert!(bigint_to_u64(&big) == want);
}

struct Rec { buf: [u8; 48], n: usize }
impl Hasher for Rec {
    fn finish(&self) -> u64 { 0 }
    fn write(&mut self, bytes: &[u8]) {
        let mut k = 0;
        while k < bytes.len() { if self.n < 48 { self.buf[self.n] = bytes[k]; self.n += 1; } k += 1; }
    }
}
fn fed(t: &OwnedTerm) -> ([u8; 48], usize) { let mut r = Rec { buf: [0; 48], n: 0 }; t.hash(&mut r); (r.buf, r.n) }

/// Float arm of cmp: numeric order on non-NaN floats, antisymmetric; equal floats feed identical bytes to any Hasher
#[kani::proof]
#[kani::unwind(50)]
fn float_cmp_eq_hash__complete() {
    let a: f64 = kani::any();
    let b: f64 = kani::any();
    kani::assume(!a.is_nan() && !b.is_nan());
    let ta = OwnedTerm::Float(a);
    let tb = OwnedTerm::Float(b);
    let ab = ta.cmp(&tb);
    let ba = tb.cmp(&ta);
    assert!(ab == ba.reverse());
    assert!((ab == Ordering::Less) == (a < b));
    assert!((ab == Ordering::Equal) == (a == b));
    if ta == tb {
        assert!(ab == Ordering::Equal);
        assert!(fed(&ta) == fed(&tb));
    }
    kani::cover!(a == 0.0 && b == 0.0 && a.to_bits() != b.to_bits());
    std::mem::forget(ta); std::mem::forget(tb);
}

/// Integer arm: order is the integer order; equal integers hash alike; Integer vs Float goes through the exact helper
#[kani::proof]
#[kani::unwind(50)]
fn integer_cmp_eq_hash__complete() {
    let a: i64 = kani::any();
    let b: i64 = kani::any();
    let ta = OwnedTerm::Integer(a);
    let tb = OwnedTerm::Integer(b);
    assert!(ta.cmp(&tb) == a.cmp(&b));
    if ta == tb { assert!(fed(&ta) == fed(&tb)); }
    let bits: u64 = kani::any();
    let f = f64::from_bits(bits);
    kani::assume(!f.is_nan());
    let tf = OwnedTerm::Float(f);
    assert!(ord_i8(ta.cmp(&tf)) == exact_cmp_i64_f64(a, bits));
    assert!(ord_i8(tf.cmp(&ta)) == -exact_cmp_i64_f64(a, bits));
    std::mem::forget(ta); std::mem::forget(tb); std::mem::forget(tf);
}

/// bigint_to_f64 on magnitudes below 2^48 (1..=6 digits, every digit value): exactly the integer, with the sign of the big
/// integer.  Bounded: longer digit strings go through the same loop but round (known finding C12-bigint-float-lossy).
#[kani::proof]
#[kani::unwind(9)]
fn bigint_to_f64_small__bounded_6digits() {
    let n: usize = kani::any();
    kani::assume(n >= 1 && n <= 6);
    let d: [u8; 6] = kani::any();
    let neg: bool = kani::any();
    let big = BigInt { sign: if neg { Sign::Negative } else { Sign::Positive }, digits: d[..n].to_vec() };
    let mut m: u64 = 0;
    let mut k = 0;
    while k < 6 { if k < n { m |= (d[k] as u64) << (8 * k); } k += 1; }
    let want = if neg { -(m as f64) } else { m as f64 };
    let got = bigint_to_f64(&big);
    assert!(got == want);
    std::mem::forget(big);
}

/// bigint_to_f64 beyond the range of f64 (129 digits, top digit non-zero: |x| >= 2^1024): the infinity of the big integer's
/// sign.  Bounded: this one digit count, lower digits zero.
#[kani::proof]
#[kani::unwind(131)]
fn bigint_to_f64_overflow_sign__bounded_129digits() {
    let top: u8 = kani::any();
    kani::assume(top != 0);
    let neg: bool = kani::any();
    let mut digits = vec![0u8; 129];
    digits[128] = top;
    let big = BigInt { sign: if neg { Sign::Negative } else { Sign::Positive }, digits };
    let got = bigint_to_f64(&big);
    assert!(got.is_infinite());
    assert!(got.is_sign_negative() == neg);
    std::mem::forget(big);
}
