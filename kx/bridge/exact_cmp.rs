// bridge: exact comparison of an i64 with a finite f64 by integer arithmetic on the IEEE-754 fields.
// Oracle for compare_int_float (C11/C12): independent of any float rounding.
pub fn exact_cmp_i64_f64(i: i64, f_bits: u64) -> i8 {
    let neg = (f_bits >> 63) != 0;
    let exp = ((f_bits >> 52) & 0x7ff) as i32;
    let frac = f_bits & ((1u64 << 52) - 1);
    if exp == 0x7ff {
        // infinity (NaN is excluded by the caller)
        return if neg { 1 } else { -1 };
    }
    // |f| = m * 2^e, m an integer below 2^53
    let (m, e): (u64, i32) = if exp == 0 { (frac, -1074) } else { (frac | (1u64 << 52), exp - 1075) };
    if m == 0 {
        return if i < 0 { -1 } else if i == 0 { 0 } else { 1 };
    }
    if neg && i >= 0 { return 1; }
    if !neg && i < 0 { return -1; }
    let a: u128 = i.unsigned_abs() as u128;   // |i| <= 2^63
    // compare a with m * 2^e
    let mag: i8 = if e >= 12 {
        -1                                     // m*2^e >= 2^64 > a
    } else if e >= 0 {
        let b: u128 = (m as u128) << (e as u32);
        if a < b { -1 } else if a == b { 0 } else { 1 }
    } else {
        let s: u32 = (-e) as u32;
        if s > 63 {
            if a == 0 { -1 } else { 1 }        // 0 < m*2^e < 1
        } else {
            let lhs: u128 = a << s;            // a*2^s <= 2^126
            let m128 = m as u128;
            if lhs < m128 { -1 } else if lhs == m128 { 0 } else { 1 }
        }
    };
    if neg { -mag } else { mag }
}
