// ---- prelude io.rs: byte-stream shims for sequential-await units (assumed tokio contracts) ----
// A Reader is the sequence of bytes the peer will ever send from now on (`rem`), whatever the segmentation:
// tokio's read_exact / read_u16 contract is "exactly n bytes or an error" under every chunking and every Pending
// (assumed; bounded Kani check dep_tokio_read_exact).  eof_is_error: a stream shorter than n yields Err.
pub struct IoError { pub _p: u8 }
pub enum IoKind { InvalidData, UnexpectedEof, Other }
pub type IoResult<T> = std::result::Result<T, IoError>;
impl From<IoKind> for IoError { #[verifier::external_body] fn from(k: IoKind) -> (r: IoError) { unimplemented!() } }
#[verifier::external_body] pub fn io_error_new(kind: IoKind, msg: Str) -> (r: IoError) { unimplemented!() }

pub struct Reader { pub rem: Ghost<Seq<u8>> }
impl Reader {
    pub open spec fn view(&self) -> Seq<u8> { self.rem@ }
    #[verifier::external_body]
    pub fn read_exact(&mut self, buf: &mut [u8]) -> (r: IoResult<usize>)
        ensures old(self)@.len() >= old(buf)@.len() ==> r.is_ok()
                    && final(buf)@ == old(self)@.take(old(buf)@.len() as int)
                    && final(self)@ == old(self)@.skip(old(buf)@.len() as int),
                old(self)@.len() < old(buf)@.len() ==> r.is_err(),
                final(buf)@.len() == old(buf)@.len(),
    { unimplemented!() }
    // read_buf appends SOME prefix of the stream (whatever fits the buffer's spare capacity, which Verus does not
    // track): 0 bytes only at end of stream
    #[verifier::external_body]
    pub fn read_buf(&mut self, buf: &mut Vec<u8>) -> (r: IoResult<usize>)
        ensures r matches Ok(k) ==> k <= old(self)@.len() && (k == 0 ==> old(self)@.len() == 0)
                    && final(buf)@ == old(buf)@ + old(self)@.take(k as int) && final(self)@ == old(self)@.skip(k as int),
    { unimplemented!() }
    // AsyncReadExt::read: fills SOME prefix of the buffer with the next bytes of the stream (0 only at end of stream or
    // for an empty buffer); the rest of the buffer keeps its old content
    #[verifier::external_body]
    pub fn read(&mut self, buf: &mut [u8]) -> (r: IoResult<usize>)
        ensures final(buf)@.len() == old(buf)@.len(),
                r matches Ok(k) ==> k <= old(self)@.len() && k <= old(buf)@.len() && (k == 0 ==> (old(self)@.len() == 0 || old(buf)@.len() == 0))
                    && final(buf)@ == old(self)@.take(k as int) + old(buf)@.skip(k as int) && final(self)@ == old(self)@.skip(k as int),
    { unimplemented!() }
    #[verifier::external_body]
    pub fn read_u16(&mut self) -> (r: IoResult<u16>)
        ensures old(self)@.len() >= 2 ==> r.is_ok() && r->Ok_0 == be_u16_val(old(self)@) && final(self)@ == old(self)@.skip(2),
                old(self)@.len() < 2 ==> r.is_err(),
    { unimplemented!() }
}
// A Writer accumulates what has been handed to the socket; any write may fail (then nothing more is known)
pub struct Writer { pub out: Ghost<Seq<u8>> }
impl Writer {
    pub open spec fn view(&self) -> Seq<u8> { self.out@ }
    #[verifier::external_body] pub fn write_u8(&mut self, x: u8) -> (r: IoResult<()>)
        ensures r.is_ok() ==> final(self)@ == old(self)@.push(x) { unimplemented!() }
    #[verifier::external_body] pub fn write_u16(&mut self, x: u16) -> (r: IoResult<()>)
        ensures r.is_ok() ==> final(self)@ == old(self)@ + be16(x) { unimplemented!() }
    #[verifier::external_body] pub fn write_u32(&mut self, x: u32) -> (r: IoResult<()>)
        ensures r.is_ok() ==> final(self)@ == old(self)@ + be32(x) { unimplemented!() }
    #[verifier::external_body] pub fn write_all<S: AsBytes + ?Sized>(&mut self, s: &S) -> (r: IoResult<()>)
        ensures r.is_ok() ==> final(self)@ == old(self)@ + s.bv() { unimplemented!() }
    // AsyncWriteExt::write: hands over SOME prefix of the buffer (possibly shorter than the buffer) and says how much
    #[verifier::external_body] pub fn write<S: AsBytes + ?Sized>(&mut self, s: &S) -> (r: IoResult<usize>)
        ensures r matches Ok(n) ==> n <= s.bv().len() && final(self)@ == old(self)@ + s.bv().take(n as int) { unimplemented!() }
    #[verifier::external_body] pub fn flush(&mut self) -> (r: IoResult<()>)
        ensures final(self)@ == old(self)@ { unimplemented!() }
}
