#!/usr/bin/env python3
"""Regenerates MANIFEST.json from props.json (single source for per-property texts)."""
import json, os
V = os.path.dirname(os.path.abspath(__file__))
props = json.load(open(os.path.join(V, 'props.json')))
all_ids = [json.loads(l)['id'] for l in open(os.path.join(V, 'properties.jsonl'))]
checks, na = [], []
for pid in all_ids:
    c = props.get(pid)
    if not c or c.get('not_applicable'):
        na.append({'property_id': pid, 'reason': (c or {}).get('not_applicable', 'check not built yet (see DESIGN.md section 3 for the plan)')})
        continue
    checks.append({
        'property_id': pid,
        'quick_cmd': './check %s --tier quick' % pid,
        'thorough_cmd': './check %s --tier thorough' % pid,
        'evidence_file': 'evidence/%s.json' % pid,
        'replay_cmd_template': './check %s --replay {path}' % pid,
        'engine': 'contracts',
        'level_claimed': {'category': 'proof', 'text': c['level_text'], 'design_ref': c.get('design_ref', 'DESIGN.md section 3 / ' + pid)},
        'level_note': c['level_note'],
        'technique': c.get('technique', 'contract-based deductive verification (Verus on mechanically extracted real functions; Kani function-level harnesses on the real crates)'),
    })
m = {
    'version': 1,
    'setup_cmd': './setup.sh',
    'hooks': {'guard': 'none (no hook is committed to /repo: Verus reads extracted text, Kani reads a scratch copy with #[cfg(kani)] child modules appended)',
              'enable': 'n/a - checks read /repo working tree as it is',
              'baseline_off_cmd': 'cd /repo && cargo test --workspace --no-fail-fast --offline',
              'source_commits': [], 'add_only': True},
    'engines': [
        {'name': 'contracts', 'path': 'check', 'serves_properties': [c['property_id'] for c in checks],
         'kind_free_text': 'vx/: per-run mechanical extraction of real functions + contracts -> Verus; kx/: Kani harnesses injected into a scratch copy of /repo; replay/: native replay of witnesses'}],
    'checks': checks,
    'notes': 'Exit 2 = undecided (lost anchor, unsupported construct, tool failure); never an alarm. KNOWN_FINDINGS.txt lists recorded and fixed defects.',
    'not_applicable': na,
}
json.dump(m, open(os.path.join(V, 'MANIFEST.json'), 'w'), indent=1)
print('claimed', len(checks), 'n/a', len(na))
