// ---- prelude cow.rs: std::borrow::Cow for the two instantiations the code uses (str and [u8]) ----
pub trait CowTarget { type Owned; }
impl CowTarget for Str { type Owned = Str; }
impl CowTarget for [u8] { type Owned = Vec<u8>; }
pub enum Cow<'a, B: ?Sized + CowTarget + 'a> { Borrowed(&'a B), Owned(<B as CowTarget>::Owned) }
pub open spec fn cow_str(c: Cow<'_, Str>) -> Seq<u8> { match c { Cow::Borrowed(s) => s@, Cow::Owned(s) => s@ } }
pub open spec fn cow_bytes(c: Cow<'_, [u8]>) -> Seq<u8> { match c { Cow::Borrowed(s) => s@, Cow::Owned(s) => s@ } }
impl<'a> Cow<'a, Str> {
    #[verifier::external_body] pub fn as_ref(&self) -> (r: &Str) ensures r@ == cow_str(*self) { unimplemented!() }
    #[verifier::external_body] pub fn to_string(&self) -> (r: Str) ensures r@ == cow_str(*self) { unimplemented!() }
}
impl<'a> Cow<'a, [u8]> {
    #[verifier::external_body] pub fn as_ref(&self) -> (r: &[u8]) ensures r@ == cow_bytes(*self) { unimplemented!() }
}
