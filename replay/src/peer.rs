//! Scripted peer: a fake EPMD (port 4369 on 127.0.0.1) and a fake Erlang node that completes the
//! distribution handshake with the library's `Connection`, then plays a script of frames / reads what
//! the library sends.  Independent implementation of the handshake layout (erl_dist_protocol).
use md5::{Digest, Md5};
use tokio::io::{AsyncReadExt, AsyncWriteExt};
use tokio::net::{TcpListener, TcpStream};

pub const COOKIE: &str = "secret";

async fn read_hs_msg(s: &mut TcpStream) -> Vec<u8> {
    let n = s.read_u16().await.expect("hs len") as usize;
    let mut b = vec![0u8; n];
    s.read_exact(&mut b).await.expect("hs body");
    b
}
async fn write_hs_msg(s: &mut TcpStream, body: &[u8]) {
    s.write_u16(body.len() as u16).await.unwrap();
    s.write_all(body).await.unwrap();
    s.flush().await.unwrap();
}

/// starts fake epmd + node; returns once both listen.  `flags` = what the peer advertises.
pub async fn start(flags: u64) -> tokio::task::JoinHandle<TcpStream> {
    let node_l = TcpListener::bind("127.0.0.1:0").await.expect("bind node");
    let node_port = node_l.local_addr().unwrap().port();
    // the fake EPMD needs the well-known port: another replay (a concurrent check) may hold it for a moment.  Wait for it;
    // if it never becomes free this replay cannot run at all: exit code 2 = "no observation" (never "reproduced")
    let mut epmd_l = None;
    for _ in 0..300 {
        match TcpListener::bind("127.0.0.1:4369").await {
            Ok(l) => { epmd_l = Some(l); break; }
            Err(_) => tokio::time::sleep(std::time::Duration::from_millis(100)).await,
        }
    }
    let epmd_l = match epmd_l { Some(l) => l, None => { eprintln!("port 4369 busy: replay not run"); std::process::exit(2) } };
    tokio::spawn(async move {
        // one PORT2_REQ
        let (mut s, _) = epmd_l.accept().await.unwrap();
        let n = s.read_u16().await.unwrap() as usize;
        let mut b = vec![0u8; n];
        s.read_exact(&mut b).await.unwrap();
        let name = &b[1..];
        let mut r = vec![119u8, 0];
        r.extend_from_slice(&node_port.to_be_bytes());
        r.extend_from_slice(&[77, 0, 0, 6, 0, 5]);
        r.extend_from_slice(&(name.len() as u16).to_be_bytes());
        r.extend_from_slice(name);
        r.extend_from_slice(&[0, 0]);
        s.write_all(&r).await.unwrap();
        s.flush().await.unwrap();
    });
    tokio::spawn(async move {
        let (mut s, _) = node_l.accept().await.unwrap();
        let _name = read_hs_msg(&mut s).await; // 'n' version flags name
        write_hs_msg(&mut s, b"sok").await;
        // the library sends a complement message ('c') after the status
        let _compl = read_hs_msg(&mut s).await;
        // challenge: 'N' flags(8) challenge(4) creation(4) nlen(2) name
        let my_challenge: u32 = 0x1234_5678;
        let mut c = vec![b'N'];
        c.extend_from_slice(&flags.to_be_bytes());
        c.extend_from_slice(&my_challenge.to_be_bytes());
        c.extend_from_slice(&1u32.to_be_bytes());
        let nm = b"peer@127.0.0.1";
        c.extend_from_slice(&(nm.len() as u16).to_be_bytes());
        c.extend_from_slice(nm);
        write_hs_msg(&mut s, &c).await;
        let reply = read_hs_msg(&mut s).await; // 'r' challenge(4) digest(16)
        assert_eq!(reply[0], b'r');
        let their_challenge = u32::from_be_bytes([reply[1], reply[2], reply[3], reply[4]]);
        let mut h = Md5::new();
        h.update(format!("{}{}", COOKIE, my_challenge).as_bytes());
        let want: [u8; 16] = h.finalize().into();
        assert_eq!(&reply[5..21], &want, "library's digest of our challenge");
        let mut h = Md5::new();
        h.update(format!("{}{}", COOKIE, their_challenge).as_bytes());
        let d: [u8; 16] = h.finalize().into();
        let mut a = vec![b'a'];
        a.extend_from_slice(&d);
        write_hs_msg(&mut s, &a).await;
        s
    })
}

pub async fn connected(flags: u64) -> (edp_client::Connection, TcpStream) {
    let h = start(flags).await;
    let cfg = edp_client::ConnectionConfig::new("me@127.0.0.1", "peer@127.0.0.1", COOKIE)
        .with_epmd_host("127.0.0.1")
        .with_timeout(std::time::Duration::from_secs(3));
    let mut conn = edp_client::Connection::new(cfg);
    conn.connect().await.expect("handshake with scripted peer");
    let peer = h.await.unwrap();
    (conn, peer)
}

pub fn frame(body: &[u8]) -> Vec<u8> {
    let mut v = (body.len() as u32).to_be_bytes().to_vec();
    v.extend_from_slice(body);
    v
}
