"""Minimal Rust source scanner: masks comments/strings, matches braces, finds items.

Nothing here interprets Rust; it only finds the text ranges of items so they can
be copied verbatim.
"""
import re


def mask(src):
    """Return a same-length string where comments, string/char literal *contents*
    are replaced by spaces (newlines kept).  Delimiters of strings are kept so
    offsets line up; used only for structure scanning."""
    out = list(src)
    i, n = 0, len(src)

    def blank(a, b):
        for k in range(a, b):
            if out[k] != '\n':
                out[k] = ' '

    while i < n:
        c = src[i]
        if c == '/' and i + 1 < n and src[i + 1] == '/':
            j = src.find('\n', i)
            if j < 0:
                j = n
            blank(i, j)
            i = j
        elif c == '/' and i + 1 < n and src[i + 1] == '*':
            depth, j = 1, i + 2
            while j < n and depth:
                if src.startswith('/*', j):
                    depth += 1
                    j += 2
                elif src.startswith('*/', j):
                    depth -= 1
                    j += 2
                else:
                    j += 1
            blank(i, j)
            i = j
        elif c == '"' or (c in 'rb' and re.match(r'(?:br|rb|r|b)(#*)"', src[i:i + 12]) and (i == 0 or not (src[i - 1].isalnum() or src[i - 1] == '_'))):
            m = re.match(r'(br|rb|r|b)?(#*)"', src[i:i + 12])
            prefix, hashes = m.group(1) or '', m.group(2)
            start = i + m.end()
            if 'r' in prefix:
                close = '"' + hashes
                j = src.find(close, start)
                if j < 0:
                    j = n
                blank(start, j)
                i = j + len(close)
            else:
                j = start
                while j < n and src[j] != '"':
                    if src[j] == '\\':
                        j += 1
                    j += 1
                blank(start, j)
                i = j + 1
        elif c == "'":
            # char literal or lifetime
            m = re.match(r"'(\\.[^']*|[^\\'])'", src[i:i + 14])
            if m:
                blank(i + 1, i + m.end() - 1)
                i += m.end()
            else:
                i += 1
        elif c == 'b' and src.startswith("b'", i) and (i == 0 or not (src[i - 1].isalnum() or src[i - 1] == '_')):
            m = re.match(r"b'(\\.[^']*|[^\\'])'", src[i:i + 14])
            if m:
                blank(i + 2, i + m.end() - 1)
                i += m.end()
            else:
                i += 1
        else:
            i += 1
    return ''.join(out)


def match_brace(msk, open_pos, open_ch='{', close_ch='}'):
    """msk[open_pos] == open_ch; return index of matching close."""
    depth = 0
    for k in range(open_pos, len(msk)):
        ch = msk[k]
        if ch == open_ch:
            depth += 1
        elif ch == close_ch:
            depth -= 1
            if depth == 0:
                return k
    raise ValueError('unbalanced %s at %d' % (open_ch, open_pos))


ITEM_RE = re.compile(
    r'(?P<vis>pub(?:\([^)]*\))?\s+)?'
    r'(?P<quals>(?:(?:const|async|unsafe|default)\s+|extern\s+"[^"]*"\s+)*)'
    r'(?P<kw>fn|struct|enum|impl|mod|trait|const|static|type|union)\b')


class Item:
    def __init__(self, kind, name, start, sig_start, body_open, end, parent=None, header=''):
        self.kind = kind          # fn struct enum impl const ...
        self.name = name
        self.start = start        # start including attributes / doc comments
        self.sig_start = sig_start  # start of `pub fn ...`
        self.body_open = body_open  # index of '{' (or None for `;` items)
        self.end = end            # index one past the closing '}' or ';'
        self.parent = parent      # enclosing impl Item
        self.header = header      # impl header text
        self.children = []

    def __repr__(self):
        return 'Item(%s %s %d..%d)' % (self.kind, self.name, self.start, self.end)


def _attr_start(src, msk, pos, lower):
    """Walk backwards from pos over attributes and doc comments; return start."""
    start = pos
    while True:
        # skip whitespace backwards
        k = start
        while k > lower and src[k - 1] in ' \t\r\n':
            k -= 1
        if k <= lower:
            break
        # attribute ending in ']'
        if src[k - 1] == ']':
            # find matching '[' backwards in msk
            depth, j = 0, k - 1
            while j >= lower:
                if msk[j] == ']':
                    depth += 1
                elif msk[j] == '[':
                    depth -= 1
                    if depth == 0:
                        break
                j -= 1
            if j > lower and src[j - 1] == '#':
                start = j - 1
                continue
            if j > lower + 1 and src[j - 2:j] == '#!':
                break
            break
        # doc / line comment
        ls = src.rfind('\n', lower, k) + 1
        line = src[ls:k].lstrip()
        if line.startswith('//'):
            start = ls
            continue
        break
    # normalise to beginning of line content
    return start


def scan_items(src, msk=None, lo=0, hi=None, parent=None):
    """Scan items at one nesting level between lo and hi."""
    if msk is None:
        msk = mask(src)
    if hi is None:
        hi = len(src)
    items = []
    i = lo
    while i < hi:
        m = ITEM_RE.search(msk, i, hi)
        if not m:
            break
        # must be at a token boundary
        if m.start() > 0 and (msk[m.start() - 1].isalnum() or msk[m.start() - 1] == '_'):
            i = m.end()
            continue
        kw = m.group('kw')
        p = m.end()
        if kw == 'impl':
            ob = msk.find('{', p, hi)
            if ob < 0:
                break
            cb = match_brace(msk, ob)
            header = src[m.start():ob].strip()
            it = Item('impl', impl_target(header), _attr_start(src, msk, m.start(), lo), m.start(), ob, cb + 1, parent, header)
            it.children = scan_items(src, msk, ob + 1, cb, it)
            items.append(it)
            i = cb + 1
            continue
        if kw == 'const' and re.match(r'\s+fn\b', msk[p:p + 8]):
            # `const fn` handled through quals normally; defensive
            i = p
            continue
        nm = re.match(r'\s+([A-Za-z_][A-Za-z0-9_]*)', msk[p:p + 200])
        if not nm:
            i = p
            continue
        name = nm.group(1)
        q = p + nm.end()
        # find end: first '{' or ';' at paren/bracket/angle-insensitive depth 0
        depth = 0
        k = q
        ob = None
        while k < hi:
            ch = msk[k]
            if ch in '([':
                depth += 1
            elif ch in ')]':
                depth -= 1
            elif ch == '{' and depth == 0:
                ob = k
                break
            elif ch == ';' and depth == 0:
                break
            k += 1
        start = _attr_start(src, msk, m.start(), lo)
        if ob is not None:
            cb = match_brace(msk, ob)
            end = cb + 1
            if kw in ('const', 'static', 'type'):
                # `const X: T = Foo { .. };`
                sc = msk.find(';', cb, hi)
                end = sc + 1 if sc >= 0 else cb + 1
                ob = None
            it = Item(kw, name, start, m.start(), ob, end, parent)
            if kw in ('mod', 'trait'):
                it.children = scan_items(src, msk, ob + 1, cb, it) if ob else []
            items.append(it)
            i = end
        else:
            it = Item(kw, name, start, m.start(), None, k + 1, parent)
            items.append(it)
            i = k + 1
    return items


def impl_target(header):
    """`impl<T> Trait for Type<T> where ..` -> ('Type', 'Trait' or None)"""
    h = re.sub(r'^impl\s*(<[^>]*>)?\s*', '', header)
    h = re.split(r'\bwhere\b', h)[0].strip()
    trait = None
    if re.search(r'\sfor\s', h):
        trait, h = re.split(r'\sfor\s', h, 1)
        trait = trait.strip()
    ty = re.match(r'&?\s*(?:\'\w+\s+)?(?:mut\s+)?([A-Za-z_][A-Za-z0-9_:]*)', h.strip())
    tyname = ty.group(1).split('::')[-1] if ty else h.strip()
    return (tyname, trait)


def line_of(src, pos):
    return src.count('\n', 0, pos) + 1
