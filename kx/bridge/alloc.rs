// bridge (one text, two verifiers): state transition of the pid allocator.
// Kani proves  PidAllocator::allocate == alloc_step  on the real struct for every state;
// Verus proves the uniqueness lemmas about sequences of alloc_step.
// returns (next_id, next_serial, pid_id, pid_serial)
pub fn alloc_step(id: u32, serial: u64) -> (u32, u64, u32, u32) {
    if id >= 1_048_576 {
        (1, serial + 1, id, ((serial + 1) % 4_294_967_296) as u32)
    } else {
        (id + 1, serial, id, (serial % 4_294_967_296) as u32)
    }
}
