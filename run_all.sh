#!/bin/sh
# runs every claimed check (quick tier by default) and prints one line per property
cd "$(dirname "$0")"
tier=${1:-quick}
rc=0
for p in $(python3 -c "import json; print(' '.join(c['property_id'] for c in json.load(open('MANIFEST.json'))['checks']))"); do
  out=$(./check $p --tier $tier 2>&1); e=$?
  echo "$p exit=$e $(echo "$out" | grep -E "obligations discharged" | head -1)"
  if [ $e -ne 0 ]; then echo "$out" | grep -E "VIOLATION|UNDECIDED|FAILED" | head -5; rc=1; fi
done
python3-vt /verif/audit_evidence.py || rc=1
exit $rc
