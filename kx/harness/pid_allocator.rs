// Kani harnesses for crates/edp_client/src/pid_allocator.rs (child module: sees private fields)
use super::*;
extern crate alloc;
include!(concat!(env!("VERIF_DIR"), "/kx/bridge/alloc.rs"));

fn fmt_stub(_a: std::fmt::Arguments<'_>) -> String { String::new() }

/// real `allocate` == bridge `alloc_step` for every counter state the allocator can be in, every creation.
#[kani::proof]
#[kani::stub(alloc::fmt::format, fmt_stub)]
fn allocate__complete() {
    let id: u32 = kani::any();
    let serial: u64 = kani::any();
    let creation: u32 = kani::any();
    kani::assume(id >= 1 && id <= 1_048_576);   // representation invariant of next_id (new() starts at 1; both branches keep it)
    kani::assume(serial < u64::MAX);            // 2^64 wraps = 2^84 allocations: unreachable
    let a = PidAllocator {
        node_name: Atom { name: std::sync::Arc::from("n") },
        creation: AtomicU32::new(creation),
        next_id: AtomicU32::new(id),
        next_serial: AtomicU64::new(serial),
        wrap_lock: Mutex::new(()),
    };
    kani::cover!(id == 1_048_576);
    let r = a.allocate();
    let (nid, nser, pid_id, pid_serial) = alloc_step(id, serial);
    match &r {
        Ok(pid) => {
            assert!(pid.id == pid_id);
            assert!(pid.serial == pid_serial);
            assert!(pid.creation == creation);          // creation in force at the call
            assert!(pid.local_ext_bytes.is_none());
        }
        Err(_) => assert!(false),
    }
    assert!(a.next_id.load(Ordering::Relaxed) == nid);
    assert!(a.next_serial.load(Ordering::Relaxed) == nser);
    assert!(nid >= 1 && nid <= 1_048_576);              // invariant preserved
    assert!(a.creation.load(Ordering::Relaxed) == creation);
    std::mem::forget(r);
}

/// new() establishes the invariant; set_creation changes the creation and NOTHING else, from every counter state
/// (numbers already handed out are never re-issued because the node re-registered under a creation it had before)
#[kani::proof]
fn set_creation_and_new__complete() {
    let c0: u32 = kani::any();
    let c1: u32 = kani::any();
    let a = PidAllocator::new(Atom { name: std::sync::Arc::from("n") }, Creation(c0));
    assert!(a.next_id.load(Ordering::Relaxed) == 1);
    assert!(a.next_serial.load(Ordering::Relaxed) == 0);
    assert!(a.creation.load(Ordering::Relaxed) == c0);
    let id: u32 = kani::any();
    let serial: u64 = kani::any();
    a.next_id.store(id, Ordering::Relaxed);
    a.next_serial.store(serial, Ordering::Relaxed);
    a.set_creation(Creation(c1));
    assert!(a.next_id.load(Ordering::Relaxed) == id);
    assert!(a.next_serial.load(Ordering::Relaxed) == serial);
    assert!(a.creation.load(Ordering::Relaxed) == c1);
    std::mem::forget(a);
}
