// Kani harnesses for leaf parsers of crates/erltf/src/decoder.rs
use super::*;
extern crate alloc;
fn fmt_stub(_a: std::fmt::Arguments<'_>) -> String { String::new() }

include!(concat!(env!("VERIF_DIR"), "/kx/bridge/int_ext.rs"));

/// C01/C15: the bytes written for ANY i64 (bridge function int_ext_bytes: Kani proves encode_integer writes exactly
/// these bytes, harness encode_integer__complete; Verus proves they are the format's encoding) are read back by the
/// matching leaf parser as a term whose integer value is that i64 (small integer, 32-bit integer, or a big integer of
/// at most 8 digits, minimal length)
#[kani::proof]
#[kani::unwind(13)]
#[kani::stub(alloc::fmt::format, fmt_stub)]
fn integer_wire_trip__complete() {
    let v: i64 = kani::any();
    let (bytes, n) = int_ext_bytes(v);
    let body = &bytes[1..n];
    let r = match bytes[0] {
        97 => parse_small_integer(body),
        98 => parse_integer(body),
        110 => parse_small_big(body),
        _ => { assert!(false); return; }
    };
    match &r {
        Ok((rest, OwnedTerm::Integer(i))) => { assert!(rest.is_empty()); assert!(*i == v); }
        Ok((rest, OwnedTerm::BigInt(b))) => {
            assert!(rest.is_empty());
            assert!(b.digits.len() <= 8 && b.digits.len() >= 1);
            let mut m: u128 = 0;
            let mut k = 0;
            while k < 8 { if k < b.digits.len() { m |= (b.digits[k] as u128) << (8 * k); } k += 1; }
            let val: i128 = if b.sign.is_negative() { -(m as i128) } else { m as i128 };
            assert!(val == v as i128);
            assert!(b.digits[b.digits.len() - 1] != 0);       // minimal: no leading zero digit
        }
        _ => assert!(false),
    }
    kani::cover!(v == i64::MIN);
    std::mem::forget(r);
}

/// C03: the fixed-width leaves read exactly their field (all byte values)
#[kani::proof]
#[kani::stub(alloc::fmt::format, fmt_stub)]
fn fixed_width_leaves__complete() {
    let d: [u8; 9] = kani::any();
    let a = parse_small_integer(&d);
    match &a { Ok((rest, OwnedTerm::Integer(i))) => { assert!(rest.len() == 8 && *i == d[0] as i64); } _ => assert!(false) }
    let b = parse_integer(&d);
    match &b { Ok((rest, OwnedTerm::Integer(i))) => { assert!(rest.len() == 5 && *i == i32::from_be_bytes([d[0], d[1], d[2], d[3]]) as i64); } _ => assert!(false) }
    let c = parse_new_float(&d);
    match &c { Ok((rest, OwnedTerm::Float(f))) => { assert!(rest.len() == 1 && f.to_bits() == u64::from_be_bytes([d[0], d[1], d[2], d[3], d[4], d[5], d[6], d[7]])); } _ => assert!(false) }
    let e = parse_integer(&d[..3]);
    assert!(e.is_err());
    std::mem::forget(a); std::mem::forget(b); std::mem::forget(c); std::mem::forget(e);
}
