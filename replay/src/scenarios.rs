use serde_json::{json, Value};

fn i(v: &Value) -> i64 {
    v.as_i64().or_else(|| v.as_str().and_then(|s| s.parse().ok())).expect("i64")
}

/// returns (postcondition holds, observed)
pub fn run(scenario: &str, input: &Value) -> Option<(bool, Value)> {
    match scenario {
        // C20: len / contains / iteration of a range agree, no overflow
        "range" => {
            use edp_elixir_terms::ElixirRange;
            let r = ElixirRange::new(i(&input["first"]), i(&input["last"]), i(&input["step"]));
            let probe = input.get("probe").map(i);
            let len = r.len();
            let mut items = Vec::new();
            for (n, v) in r.into_iter().enumerate() {
                if n >= 64 { break; }
                items.push(v);
            }
            let mut ok = true;
            // spec: element k = first + k*step (mathematical), k < len
            for (k, v) in items.iter().enumerate() {
                let want = r.first as i128 + (k as i128) * (r.step as i128);
                ok &= *v as i128 == want && r.contains(*v);
            }
            ok &= if len <= 64 { items.len() == len } else { items.len() == 64 };
            let mut probe_res = Value::Null;
            if let Some(p) = probe {
                let c = r.contains(p);
                let d = p as i128 - r.first as i128;
                let want = len > 0 && r.step != 0 && d % (r.step as i128) == 0 && d / (r.step as i128) >= 0 && ((d / (r.step as i128)) as u128) < len as u128;
                ok &= c == want;
                probe_res = json!({"contains": c, "want": want});
            }
            Some((ok, json!({"len": len, "items": items, "probe": probe_res})))
        }
        // C06: frames sent by a scripted peer after a real handshake; every well-formed message is returned once, in
        // order; a malformed frame yields an error for that frame only and never panics the task
        "recv_frames" => {
            let frames: Vec<Vec<u8>> = input["frames"].as_array().unwrap().iter()
                .map(|f| f.as_array().unwrap().iter().map(|x| x.as_u64().unwrap() as u8).collect()).collect();
            let expect: Vec<String> = input["expect"].as_array().unwrap().iter().map(|x| x.as_str().unwrap().to_string()).collect();
            let flags = input.get("peer_flags").and_then(|v| v.as_u64()).unwrap_or(0x0000_000d_07df_7fbd);
            let rt = tokio::runtime::Builder::new_current_thread().enable_all().build().unwrap();
            let n_expect = expect.len();
            let got: Vec<String> = rt.block_on(async move {
                let (mut conn, mut peer) = crate::peer::connected(flags).await;
                use tokio::io::AsyncWriteExt;
                for f in &frames { peer.write_all(&crate::peer::frame(f)).await.unwrap(); }
                peer.flush().await.unwrap();
                let mut got = Vec::new();
                for _ in 0..n_expect {
                    let h = tokio::spawn(async move {
                        let r = tokio::time::timeout(std::time::Duration::from_secs(2), conn.receive_message()).await;
                        (conn, r)
                    });
                    match h.await {
                        Ok((c, Ok(Ok((ctl, _))))) => { got.push(format!("ok:{}", ctl.to_term().as_tuple().map(|t| t.len()).unwrap_or(0))); conn = c; }
                        Ok((c, Ok(Err(_)))) => { got.push("err".to_string()); conn = c; }
                        Ok((c, Err(_))) => { got.push("timeout".to_string()); conn = c; }
                        Err(_) => { got.push("panic".to_string()); break; }
                    }
                }
                got
            });
            Some((got == expect, json!({"got": got})))
        }
        // C07: each send-side operation writes exactly one frame, with exactly the bytes an independent encoder (the family
        // generator gen_witness_family.py) produced for the control tuple the protocol assigns to it + payload; pass-through
        // mode (the scripted peer does not offer DIST_HDR_ATOM_CACHE)
        "send_frames" => {
            use erltf::types::{Atom, ExternalPid, ExternalReference};
            let pid = |v: &Value| -> ExternalPid {
                let node = Atom::new(v["node"].as_str().unwrap());
                let (id, serial, creation) = (i(&v["id"]) as u32, i(&v["serial"]) as u32, i(&v["creation"]) as u32);
                match v.get("raw").and_then(|r| r.as_array()) {
                    Some(r) => ExternalPid::with_local_ext_bytes(node, id, serial, creation, r.iter().map(|b| b.as_u64().unwrap() as u8).collect::<Vec<u8>>()),
                    None => ExternalPid::new(node, id, serial, creation),
                }
            };
            let rf = |v: &Value| -> ExternalReference {
                ExternalReference::new(Atom::new(v["node"].as_str().unwrap()), i(&v["creation"]) as u32, v["ids"].as_array().unwrap().iter().map(|x| i(x) as u32).collect())
            };
            let ops = input["ops"].as_array().unwrap().clone();
            let flags = input.get("peer_flags").and_then(|v| v.as_u64()).unwrap_or(0x0000_000d_07df_7fbd & !0x2000);
            let rt = tokio::runtime::Builder::new_current_thread().enable_all().build().unwrap();
            let (ok, obs) = rt.block_on(async move {
                use tokio::io::AsyncReadExt;
                let (mut conn, mut peer) = crate::peer::connected(flags).await;
                let mut ok = true;
                let mut obs = vec![];
                for op in &ops {
                    let r = match op["op"].as_str().unwrap() {
                        "send" => conn.send_message(pid(&op["from"]), pid(&op["to"]), term(&op["payload"])).await,
                        "reg_send" => conn.send_to_name(pid(&op["from"]), Atom::new(op["name"].as_str().unwrap()), term(&op["payload"])).await,
                        "link" => conn.link(&pid(&op["from"]), &pid(&op["to"])).await,
                        "unlink" => conn.unlink(&pid(&op["from"]), &pid(&op["to"]), op["id"].as_u64().unwrap()).await,
                        "monitor" => conn.monitor(&pid(&op["from"]), &pid(&op["to"]), &rf(&op["ref"])).await,
                        "demonitor" => conn.demonitor(&pid(&op["from"]), &pid(&op["to"]), &rf(&op["ref"])).await,
                        _ => return (false, vec![json!("unknown op")]),
                    };
                    if r.is_err() { ok = false; obs.push(json!(format!("op failed: {:?}", r.err()))); continue; }
                    let want: Vec<u8> = op["expect_frame"].as_array().unwrap().iter().map(|b| b.as_u64().unwrap() as u8).collect();
                    let got = tokio::time::timeout(std::time::Duration::from_secs(2), async {
                        let n = peer.read_u32().await.ok()? as usize;
                        let mut b = vec![0u8; n];
                        peer.read_exact(&mut b).await.ok()?;
                        Some(b)
                    }).await.ok().flatten();
                    match got {
                        Some(b) => { if b != want { ok = false; obs.push(json!({"op": op["op"], "got": b, "want": want})); } }
                        None => { ok = false; obs.push(json!("no frame")); }
                    }
                }
                // nothing else may have been written
                let mut extra = [0u8; 1];
                if let Ok(Ok(n)) = tokio::time::timeout(std::time::Duration::from_millis(150), peer.read(&mut extra)).await { if n > 0 { ok = false; obs.push(json!("extra bytes after the last frame")); } }
                (ok, obs)
            });
            Some((ok, json!(obs)))
        }
        // C11/C12: laws of the term order on a pair / triple, and the order Erlang prescribes where `erlang` is given
        "cmp_law" => {
            let a = term(&input["a"]);
            let b = term(&input["b"]);
            let ab = a.cmp(&b);
            let ba = b.cmp(&a);
            let mut ok = ab == ba.reverse();
            let mut obs = json!({"a_cmp_b": ord_s(ab), "b_cmp_a": ord_s(ba)});
            if let Some(e) = input.get("erlang").and_then(|v| v.as_str()) {
                ok &= ord_s(ab) == e;
            }
            if a == b {
                ok &= ab == std::cmp::Ordering::Equal && hash_of(&a) == hash_of(&b);
                obs["eq"] = json!(true);
                obs["hash_equal"] = json!(hash_of(&a) == hash_of(&b));
            }
            if let Some(cv) = input.get("c") {
                let c = term(cv);
                let bc = b.cmp(&c);
                let ac = a.cmp(&c);
                use std::cmp::Ordering::*;
                // a<=b && b<=c ==> a<=c
                if ab != Greater && bc != Greater { ok &= ac != Greater; }
                // a==b (order) ==> a and b compare alike against c
                if ab == Equal { ok &= ac == bc; }
                obs["b_cmp_c"] = json!(ord_s(bc));
                obs["a_cmp_c"] = json!(ord_s(ac));
            }
            Some((ok, obs))
        }
        // C18: after a process is removed, the name registered for it no longer resolves and can be registered again
        "registry_name_lifecycle" => {
            use edp_node::registry::ProcessRegistry;
            use edp_node::process::ProcessHandle;
            use erltf::types::{Atom, ExternalPid};
            let rt = tokio::runtime::Builder::new_current_thread().enable_all().build().unwrap();
            let (ok, obs) = rt.block_on(async {
                let reg = ProcessRegistry::new();
                let node = Atom::new("n@h");
                let p1 = ExternalPid::new(node.clone(), 1, 0, 1);
                let p2 = ExternalPid::new(node.clone(), 2, 0, 1);
                let (tx, _rx) = tokio::sync::mpsc::channel(4);
                reg.insert(p1.clone(), ProcessHandle::new(p1.clone(), tx.clone())).await;
                reg.insert(p2.clone(), ProcessHandle::new(p2.clone(), tx)).await;
                let name = Atom::new(input["name"].as_str().unwrap_or("svc"));
                let r1 = reg.register(name.clone(), p1.clone()).await.is_ok();
                let extra: Vec<Atom> = input.get("extra_names").and_then(|v| v.as_array()).map(|a| a.iter().map(|x| Atom::new(x.as_str().unwrap())).collect()).unwrap_or_default();
                for e in &extra { let _ = reg.register(e.clone(), p1.clone()).await; }
                reg.remove(&p1).await;
                let mut still = reg.whereis(&name).await.is_some();
                for e in &extra { still |= reg.whereis(e).await.is_some(); }
                let again = reg.register(name.clone(), p2.clone()).await.is_ok();
                let now = reg.whereis(&name).await == Some(p2.clone());
                (r1 && !still && again && now, json!({"registered": r1, "resolves_after_exit": still, "can_register_again": again}))
            });
            Some((ok, obs))
        }
        // C17: calls whose request cannot be sent leave no bookkeeping behind (observed as live heap bytes)
        "rpc_send_failure_leak" => {
            let n = input["calls"].as_u64().unwrap_or(5000) as usize;
            let rt = tokio::runtime::Builder::new_current_thread().enable_all().build().unwrap();
            let (ok, obs) = rt.block_on(async move {
                let node = edp_node::Node::new("me@127.0.0.1", "secret");
                // a connection object that never completed a handshake: every send fails with InvalidState
                let cfg = edp_client::ConnectionConfig::new("me@127.0.0.1", "peer@127.0.0.1", "secret");
                node.connections().insert("peer@127.0.0.1".to_string(), std::sync::Arc::new(tokio::sync::Mutex::new(edp_client::Connection::new(cfg))));
                // warm up allocations that are made once
                for _ in 0..10 { let _ = node.rpc_call_raw_with_timeout("peer@127.0.0.1", "erlang", "node", vec![], std::time::Duration::from_millis(5)).await; }
                let before = crate::alloc_probe::LIVE.load(std::sync::atomic::Ordering::Relaxed);
                let mut errs = 0;
                for _ in 0..n {
                    if node.rpc_call_raw_with_timeout("peer@127.0.0.1", "erlang", "node", vec![], std::time::Duration::from_millis(5)).await.is_err() { errs += 1; }
                }
                let after = crate::alloc_probe::LIVE.load(std::sync::atomic::Ordering::Relaxed);
                let grown = after.saturating_sub(before);
                (errs == n && grown < 16 * n, json!({"failed_calls": errs, "live_bytes_growth": grown, "per_call": grown / n.max(1)}))
            });
            Some((ok, obs))
        }
        // C01: the bytes written for an integer read back, by an independent reader of the integer tags, as that integer
        "encode_integer" => {
            let v = i(&input["value"]);
            let bytes = erltf::encode(&erltf::OwnedTerm::Integer(v)).ok()?;
            let read: Option<i128> = match bytes.get(1).copied() {
                Some(97) if bytes.len() == 3 => Some(bytes[2] as i128),
                Some(98) if bytes.len() == 6 => Some(i32::from_be_bytes([bytes[2], bytes[3], bytes[4], bytes[5]]) as i128),
                Some(110) if bytes.len() >= 4 && bytes.len() == 4 + bytes[2] as usize => {
                    let mut m: i128 = 0;
                    for (k, d) in bytes[4..].iter().enumerate() { m |= (*d as i128) << (8 * k); }
                    Some(if bytes[3] == 0 { m } else { -m })
                }
                _ => None,
            };
            let back = erltf::decode(&bytes);
            Some((bytes[0] == 131 && read == Some(v as i128), json!({"bytes": bytes, "independent_reader": read.map(|x| x.to_string()), "library_decode": format!("{:?}", back)})))
        }
        // C08: an UNLINK_ID tuple whose id is a non-negative big integer parses iff the id fits 64 bits, to that id
        "unlink_id_term" => {
            let n = input["n"].as_u64().unwrap() as usize;
            let digits: Vec<u8> = input["digits"].as_array().unwrap().iter().take(n).map(|x| x.as_u64().unwrap() as u8).collect();
            let mut v: u128 = 0;
            for (k, d) in digits.iter().enumerate() { v |= (*d as u128) << (8 * k); }
            let id_term = erltf::OwnedTerm::BigInt(erltf::types::BigInt::new(false, digits));
            let t = erltf::OwnedTerm::Tuple(vec![erltf::OwnedTerm::Integer(35), id_term, erltf::OwnedTerm::Nil, erltf::OwnedTerm::Nil]);
            let r = edp_client::control::ControlMessage::from_term(&t);
            let ok = match &r {
                Ok(edp_client::control::ControlMessage::UnlinkId { id, .. }) => v <= u64::MAX as u128 && *id as u128 == v,
                Ok(_) => false,
                Err(_) => v > u64::MAX as u128,
            };
            Some((ok, json!({"value": v.to_string(), "parsed": format!("{:?}", r.map(|m| m.to_term()))})))
        }
        // C05: frames written one after another read back as the same messages however the stream is chunked
        "framing_stream" => {
            use edp_client::framing::{FrameMode, MessageDeframer};
            let dist = input["mode"].as_str().unwrap_or("distribution") == "distribution";
            let lens: Vec<usize> = input["lens"].as_array().unwrap().iter().map(|x| x.as_u64().unwrap() as usize).collect();
            let chunk = input.get("chunk").and_then(|v| v.as_u64()).unwrap_or(0) as usize; // 0 = everything at once
            let mut stream = Vec::new();
            let mut msgs = Vec::new();
            for (k, n) in lens.iter().enumerate() {
                let m: Vec<u8> = (0..*n).map(|j| (j as u8) ^ (k as u8).wrapping_mul(37)).collect();
                if dist { stream.extend_from_slice(&(*n as u32).to_be_bytes()); } else { stream.extend_from_slice(&(*n as u16).to_be_bytes()); }
                stream.extend_from_slice(&m);
                msgs.push(m);
            }
            // "cut_tail": n - the stream ends n bytes before the end of the LAST frame (end-of-stream inside a frame):
            // that frame must be reported as an error, not as a short message
            let cut = input.get("cut_tail").and_then(|v| v.as_u64()).unwrap_or(0) as usize;
            if cut > 0 { let l = stream.len(); stream.truncate(l.saturating_sub(cut)); }
            struct Chunked { data: Vec<u8>, pos: usize, chunk: usize, pend: bool }
            impl tokio::io::AsyncRead for Chunked {
                fn poll_read(mut self: std::pin::Pin<&mut Self>, cx: &mut std::task::Context<'_>, buf: &mut tokio::io::ReadBuf<'_>) -> std::task::Poll<std::io::Result<()>> {
                    if self.chunk > 0 && !self.pend { self.pend = true; cx.waker().wake_by_ref(); return std::task::Poll::Pending; }
                    self.pend = false;
                    let left = self.data.len() - self.pos;
                    let mut n = left.min(buf.remaining());
                    if self.chunk > 0 { n = n.min(self.chunk); }
                    let p = self.pos;
                    buf.put_slice(&self.data[p..p + n]);
                    self.pos += n;
                    std::task::Poll::Ready(Ok(()))
                }
            }
            let rt = tokio::runtime::Builder::new_current_thread().enable_all().build().unwrap();
            let (ok, obs) = rt.block_on(async move {
                let mut rd = Chunked { data: stream, pos: 0, chunk, pend: false };
                let de = MessageDeframer::new(if dist { FrameMode::Distribution } else { FrameMode::Handshake });
                let mut got_lens = Vec::new();
                let mut ok = true;
                for (k, m) in msgs.iter().enumerate() {
                    let must_fail = cut > 0 && k + 1 == msgs.len();
                    match de.read_framed(&mut rd).await {
                        Ok(v) => { got_lens.push(v.len() as i64); ok &= v == *m && !must_fail; }
                        Err(_) => { got_lens.push(-1); ok &= must_fail; }
                    }
                }
                // after the last frame the stream is exhausted: one more read must fail, not invent a message
                ok &= de.read_framed(&mut rd).await.is_err();
                (ok, json!({"read_lengths": got_lens}))
            });
            Some((ok, obs))
        }
        // C14 (history): a sequence of distribution messages from a conforming sender, decoded with ONE atom cache,
        // must yield the expected terms (cache slots = segment index * 256 + internal index; ATOM_CACHE_REF n = n-th
        // reference of the message's own header)
        "dist_messages" => {
            let mut cache = erltf::decoder::AtomCache::new();
            let mut ok = true;
            let mut obs = vec![];
            for m in input["messages"].as_array().unwrap() {
                let data: Vec<u8> = m["bytes"].as_array().unwrap().iter().map(|x| x.as_u64().unwrap() as u8).collect();
                let want = term(&m["expect"]);
                let got = erltf::decoder::decode_with_atom_cache(&data, &mut cache);
                let good = match &got { Ok((t, _)) => format!("{:?}", t) == format!("{:?}", want), Err(_) => false };
                ok &= good;
                obs.push(json!({"got": format!("{:?}", got.map(|(t, _)| t)), "want": format!("{:?}", want)}));
            }
            Some((ok, json!(obs)))
        }
        // C14 (writer): the bytes of encode_with_dist_header are read by an INDEPENDENT reader of the header layout
        // (written here from erl_ext_dist, sharing no code with the library) as the same atoms
        "dist_header_write" => {
            let t = term(&input["term"]);
            let bytes = match erltf::encoder::encode_with_dist_header(&t) { Ok(b) => b, Err(e) => return Some((input["expect_error"].as_bool().unwrap_or(false), json!(format!("{:?}", e)))) };
            let want: Vec<String> = input["atoms"].as_array().unwrap().iter().map(|a| gen_atom(a)).collect();
            let got = independent_header_atoms(&bytes);
            let ok = match &got { Some(a) => { let mut x = a.clone(); x.sort(); let mut y = want.clone(); y.sort(); x == y }, None => false };
            Some((ok, json!({"header_atoms_read": got.map(|a| a.iter().map(|s| if s.len() > 40 { format!("{}..({} bytes)", &s[..8], s.len()) } else { s.clone() }).collect::<Vec<_>>()), "first_bytes": bytes.iter().take(8).collect::<Vec<_>>()})))
        }
        // C15: a Rust value survives to_term/from_term and to_bytes/from_bytes
        "serde_roundtrip" => {
            let ty = input["type"].as_str().unwrap();
            macro_rules! rt { ($t:ty, $v:expr) => {{
                let v: $t = $v;
                let term_rt = erltf_serde::to_term(&v).ok().and_then(|t| erltf_serde::from_term::<$t>(&t).ok());
                let wire_rt = erltf_serde::to_bytes(&v).ok().and_then(|b| erltf_serde::from_bytes::<$t>(&b).ok());
                (term_rt == Some(v.clone()) && wire_rt == Some(v.clone()), json!({"term_trip": format!("{:?}", term_rt), "wire_trip": format!("{:?}", wire_rt)}))
            }}; }
            let n = input.get("value");
            let r = match ty {
                "i64" => rt!(i64, i(n.unwrap())),
                "i32" => rt!(i32, i(n.unwrap()) as i32),
                "i16" => rt!(i16, i(n.unwrap()) as i16),
                "i8" => rt!(i8, i(n.unwrap()) as i8),
                "u64" => rt!(u64, n.unwrap().as_u64().or_else(|| n.unwrap().as_str().and_then(|s| s.parse().ok())).unwrap()),
                "u32" => rt!(u32, i(n.unwrap()) as u32),
                "u16" => rt!(u16, i(n.unwrap()) as u16),
                "u8" => rt!(u8, i(n.unwrap()) as u8),
                "char" => rt!(char, char::from_u32(i(n.unwrap()) as u32).unwrap()),
                "bool" => rt!(bool, i(n.unwrap()) != 0),
                "f64" => rt!(f64, f64::from_bits(n.unwrap().as_u64().or_else(|| n.unwrap().as_str().and_then(|s| s.parse().ok())).unwrap())),
                "string" => rt!(String, n.unwrap().as_str().unwrap().to_string()),
                "opt_i64" => rt!(Option<i64>, if n.unwrap().is_null() { None } else { Some(i(n.unwrap())) }),
                "vec_i64" => rt!(Vec<i64>, n.unwrap().as_array().unwrap().iter().map(i).collect()),
                "unit" => rt!((), ()),
                _ => return None,
            };
            Some(r)
        }
        // C20: from_term of the Elixir calendar wrappers never fabricates a field: a field value outside the target type's
        // range is a rejection (None), and an accepted term gives back exactly the field values it carried
        "elixir_from_term" => {
            use erltf::OwnedTerm as T;
            use erltf::types::Atom;
            let a = |s: &str| T::Atom(Atom::new(s));
            let kind = input["kind"].as_str().unwrap();
            let f = |k: &str| i(&input[k]);
            let mut m = std::collections::BTreeMap::new();
            let module = match kind { "date" => "Elixir.Date", "time" => "Elixir.Time", _ => return None };
            m.insert(a("__struct__"), a(module));
            m.insert(a("calendar"), a("Elixir.Calendar.ISO"));
            let res: (bool, Value) = match kind {
                "date" => {
                    for k in ["year", "month", "day"] { m.insert(a(k), T::Integer(f(k))); }
                    let r = edp_elixir_terms::ElixirDate::from_term(&T::Map(m));
                    let fits = i32::try_from(f("year")).is_ok() && u8::try_from(f("month")).is_ok() && u8::try_from(f("day")).is_ok();
                    let ok = match &r { None => !fits || true, Some(d) => fits && d.year as i64 == f("year") && d.month as i64 == f("month") && d.day as i64 == f("day") };
                    (ok, json!(format!("{:?}", r)))
                }
                _ => {
                    for k in ["hour", "minute", "second"] { m.insert(a(k), T::Integer(f(k))); }
                    m.insert(a("microsecond"), T::Tuple(vec![T::Integer(f("us")), T::Integer(f("precision"))]));
                    let r = edp_elixir_terms::ElixirTime::from_term(&T::Map(m));
                    let fits = u8::try_from(f("hour")).is_ok() && u8::try_from(f("minute")).is_ok() && u8::try_from(f("second")).is_ok() && u32::try_from(f("us")).is_ok() && u8::try_from(f("precision")).is_ok();
                    let ok = match &r { None => true, Some(t) => fits && t.hour as i64 == f("hour") && t.minute as i64 == f("minute") && t.second as i64 == f("second") && t.microsecond_value as i64 == f("us") && t.microsecond_precision as i64 == f("precision") };
                    (ok, json!(format!("{:?}", r)))
                }
            };
            Some(res)
        }
        // C20: proplist <-> map helpers lose nothing.  Oracle written from the meaning of a proplist: a list of {K, V}
        // pairs and bare atoms (= {Atom, true}); in a map the LAST pair of a key wins.
        //   term = map  : map_to_proplist then proplist_to_map gives the same map back, and the proplist has exactly
        //                 the map's pairs;
        //   term = list : proplist_to_map has exactly the distinct keys of the list, each with its last value; going
        //                 back with map_to_proplist gives those pairs.
        "proplist_roundtrip" => {
            use erltf::OwnedTerm as T;
            let t = term(&input["term"]);
            let through_wire = input.get("wire").and_then(|v| v.as_bool()).unwrap_or(false);
            let t = if through_wire { erltf::decode(&erltf::encode(&t).ok()?).ok()? } else { t };
            let pairs_of = |l: &T| -> Vec<(T, T)> {
                let mut out: Vec<(T, T)> = vec![];
                let els: Vec<T> = match l { T::List(e) => e.clone(), T::Nil => vec![], _ => return vec![] };
                for e in els {
                    let kv = match &e { T::Tuple(x) if x.len() == 2 => Some((x[0].clone(), x[1].clone())), T::Atom(_) => Some((e.clone(), T::boolean(true))), _ => None };
                    if let Some((k, v)) = kv {
                        if let Some(slot) = out.iter_mut().find(|(k2, _)| *k2 == k) { slot.1 = v; } else { out.push((k, v)); }
                    }
                }
                out
            };
            let same_pairs = |m: &T, want: &Vec<(T, T)>| -> bool {
                match m { T::Map(mm) => mm.len() == want.len() && want.iter().all(|(k, v)| mm.get(k) == Some(v)), _ => false }
            };
            let (ok, obs) = match &t {
                T::Map(mm) => {
                    let want: Vec<(T, T)> = mm.iter().map(|(k, v)| (k.clone(), v.clone())).collect();
                    let pl = t.map_to_proplist();
                    let back = pl.as_ref().ok().and_then(|p| p.proplist_to_map().ok());
                    let ok = match (&pl, &back) { (Ok(p), Some(b)) => pairs_of(p).len() == want.len() && same_pairs(b, &want) && *b == t, _ => false };
                    (ok, json!({"proplist": format!("{:?}", pl), "map_again": format!("{:?}", back)}))
                }
                _ => {
                    let want = pairs_of(&t);
                    let m = t.proplist_to_map();
                    let back = m.as_ref().ok().and_then(|x| x.map_to_proplist().ok());
                    let ok = match (&m, &back) { (Ok(mm), Some(b)) => same_pairs(mm, &want) && { let p2 = pairs_of(b); p2.len() == want.len() && want.iter().all(|kv| p2.contains(kv)) }, _ => false };
                    (ok, json!({"map": format!("{:?}", m), "proplist_again": format!("{:?}", back)}))
                }
            };
            Some((ok, obs))
        }
        // C15: a big integer of n <= 8 little-endian digits (what the wire delivers for wide integers) is read by the
        // integer deserializers as exactly its value, or rejected when it does not fit
        "serde_bigint_read" => {
            let d: Vec<u8> = input["digits"].as_array().unwrap().iter().map(|x| x.as_u64().unwrap() as u8).collect();
            let n = (i(&input["n"]) as usize).clamp(1, 8).min(d.len());
            let neg = input["neg"].as_bool().unwrap_or(false);
            let mut m: i128 = 0;
            for k in 0..n { m |= (d[k] as i128) << (8 * k); }
            let val = if neg { -m } else { m };
            let term = erltf::OwnedTerm::BigInt(erltf::types::BigInt::new(neg, d[..n].to_vec()));
            let a = erltf_serde::from_term::<i64>(&term);
            let b = erltf_serde::from_term::<u64>(&term);
            let ok_a = match &a { Ok(x) => *x as i128 == val, Err(_) => val < i64::MIN as i128 || val > i64::MAX as i128 };
            let ok_b = match &b { Ok(x) => *x as i128 == val, Err(_) => val < 0 || val > u64::MAX as i128 };
            Some((ok_a && ok_b, json!({"value": val.to_string(), "as_i64": format!("{:?}", a.map_err(|e| e.to_string())), "as_u64": format!("{:?}", b.map_err(|e| e.to_string()))})))
        }
        // C09: fragments numbered N..1 (header = N, carrying the start of the data) reassemble to the original bytes
        "fragments" => {
            use edp_client::fragmentation::FragmentAssembler;
            let original: Vec<u8> = input["original"].as_array().unwrap().iter().map(|x| x.as_u64().unwrap() as u8).collect();
            let cuts: Vec<usize> = input["cuts"].as_array().unwrap().iter().map(|x| x.as_u64().unwrap() as usize).collect();
            // pieces in data order; piece k (0-based) of n has fragment id n-k
            let mut pieces = Vec::new();
            let mut last = 0;
            for c in cuts.iter().chain(std::iter::once(&original.len())) { pieces.push(original[last..*c].to_vec()); last = *c; }
            let n = pieces.len() as u64;
            // arrival order given as list of piece indices
            let order: Vec<usize> = input["arrival"].as_array().unwrap().iter().map(|x| x.as_u64().unwrap() as usize).collect();
            let mut a = FragmentAssembler::new();
            let mut outs = Vec::new();
            for k in order {
                let id = n - k as u64;
                let r = if k == 0 { a.start_fragment(7u64, id, None, pieces[k].clone()) } else { a.add_fragment(7u64, id, pieces[k].clone()) };
                outs.push(r);
            }
            let some: Vec<&Vec<u8>> = outs.iter().filter_map(|o| o.as_ref()).collect();
            let ok = some.len() == 1 && outs.last().unwrap().is_some() && *some[0] == original && a.pending_count() == 0;
            Some((ok, json!({"returned": some, "pending_after": a.pending_count()})))
        }
        // C09 (witness search): like "fragments" but order-agnostic on concatenation (the order is a recorded known
        // finding) and with stray continuation ids ({"stray": id}) injected; checks completion timing only:
        // Some exactly at the last missing legal fragment, never before, with all data present, nothing left pending
        "fragments_stray" => {
            use edp_client::fragmentation::FragmentAssembler;
            let original: Vec<u8> = input["original"].as_array().unwrap().iter().map(|x| x.as_u64().unwrap() as u8).collect();
            let cuts: Vec<usize> = input["cuts"].as_array().unwrap().iter().map(|x| x.as_u64().unwrap() as usize).collect();
            let mut pieces = Vec::new();
            let mut last = 0;
            for c in cuts.iter().chain(std::iter::once(&original.len())) { pieces.push(original[last..*c].to_vec()); last = *c; }
            let n = pieces.len() as u64;
            let mut a = FragmentAssembler::new();
            let mut seen = std::collections::BTreeSet::new();
            let mut ok = true;
            let mut trace = Vec::new();
            for step in input["arrival"].as_array().unwrap() {
                let r = if let Some(id) = step.get("stray").and_then(|v| v.as_u64()) {
                    a.add_fragment(7u64, id, vec![0xEE])
                } else {
                    let k = step.as_u64().unwrap() as usize;
                    seen.insert(k);
                    let id = n - k as u64;
                    if k == 0 { a.start_fragment(7u64, id, None, pieces[k].clone()) } else { a.add_fragment(7u64, id, pieces[k].clone()) }
                };
                let complete = seen.len() == pieces.len();
                match &r {
                    Some(v) => {
                        let mut sorted_got = v.clone(); sorted_got.sort();
                        let mut sorted_want = original.clone(); sorted_want.sort();
                        ok &= complete && sorted_got == sorted_want;
                        seen.clear();
                    }
                    None => { ok &= !complete; }
                }
                trace.push(r.map(|v| v.len() as i64).unwrap_or(-1));
            }
            Some((ok, json!({"returned_lengths": trace, "pending_after": a.pending_count()})))
        }
        // C03: an encoding of an atom decodes to exactly that atom (text given as UTF-8)
        "decode_atom" => {
            let data = gen_bytes(input);
            let want = input["atom_utf8"].as_str().unwrap().to_string();
            let owned = erltf::decode(&data);
            let ok_owned = matches!(&owned, Ok(erltf::OwnedTerm::Atom(a)) if a.as_str() == want);
            let mut ok = ok_owned;
            let mut borrowed_obs = Value::Null;
            if input.get("also_borrowed").and_then(|v| v.as_bool()).unwrap_or(false) {
                let b = erltf::decoder::decode_borrowed(&data);
                let okb = matches!(&b, Ok(t) if matches!(t.to_owned(), erltf::OwnedTerm::Atom(ref a) if a.as_str() == want));
                ok &= okb;
                borrowed_obs = json!(format!("{:?}", b.map(|t| t.to_owned())));
            }
            Some((ok, json!({"owned": format!("{:?}", owned), "borrowed": borrowed_obs})))
        }
        // C03/C13: decoding `bytes` yields exactly the expected term (structure compared through Debug, which is
        // structural; `map_len` guards against key merging, which would also merge in the expected term)
        "decode_value" => {
            let data = gen_bytes(input);
            if input.get("expect_error").and_then(|v| v.as_bool()).unwrap_or(false) {
                // e.g. bytes after one complete term: both decoders must report an error
                let o = erltf::decode(&data);
                let mut ok = o.is_err();
                let mut bobs = Value::Null;
                if input.get("also_borrowed").and_then(|v| v.as_bool()).unwrap_or(false) {
                    let b = erltf::decoder::decode_borrowed(&data);
                    ok &= match &b { Err(e) => e.context.byte_offset <= data.len(), Ok(_) => false };
                    bobs = json!(format!("{:?}", b.map(|t| t.to_owned())));
                }
                return Some((ok, json!({"owned": format!("{:?}", o), "borrowed": bobs, "expected": "an error"})));
            }
            let want = term(&input["expect"]);
            let owned = erltf::decode(&data);
            let mut ok = match &owned { Ok(t) => format!("{:?}", t) == format!("{:?}", want), Err(_) => false };
            if let (Some(n), Ok(erltf::OwnedTerm::Map(m))) = (input.get("map_len").and_then(|v| v.as_u64()), &owned) {
                ok &= m.len() as u64 == n;
            }
            let mut borrowed_obs = Value::Null;
            if input.get("also_borrowed").and_then(|v| v.as_bool()).unwrap_or(false) {
                let b = erltf::decoder::decode_borrowed(&data).map(|t| t.to_owned());
                ok &= match (&b, &owned) { (Ok(x), Ok(y)) => format!("{:?}", x) == format!("{:?}", y), _ => false };
                borrowed_obs = json!(format!("{:?}", b));
            }
            Some((ok, json!({"owned": format!("{:?}", owned), "borrowed": borrowed_obs, "expected": format!("{:?}", want)})))
        }
        // C02: every decoding entry point returns; allocation stays proportional to the input
        "decode_bytes" => {
            let data = gen_bytes(input);
            let stack = input.get("stack_bytes").and_then(|v| v.as_u64()).unwrap_or(2 * 1024 * 1024) as usize;
            let extra = input.get("inflated").and_then(|v| v.as_u64()).unwrap_or(0) as usize;
            let entry = input["entry"].as_str().unwrap_or("owned").to_string();
            let entries: Vec<String> = if entry == "all" { ["owned", "borrowed", "with_trailing", "atom_cache", "fragment_header"].iter().map(|s| s.to_string()).collect() } else { vec![entry] };
            // "all_prefixes": the input and every truncation of it (C02: truncation at every offset of a valid encoding)
            let lens: Vec<usize> = if input.get("all_prefixes").and_then(|v| v.as_bool()).unwrap_or(false) { (0..=data.len()).rev().collect() } else { vec![data.len()] };
            let mut last = json!(null);
            for k in lens {
                for e in &entries {
                    let (ok, obs) = decode_bytes_once(data[..k].to_vec(), e.clone(), stack, extra);
                    if !ok { return Some((false, json!({"entry": e, "prefix_len": k, "bytes": &data[..k], "observed": obs}))); }
                    last = obs;
                }
            }
            Some((true, last))
        }
        _ => None,
    }
}

fn decode_bytes_once(data: Vec<u8>, entry: String, stack: usize, extra: usize) -> (bool, Value) {
    let len = data.len();
    crate::alloc_probe::reset();
    let h = std::thread::Builder::new().stack_size(stack).spawn(move || {
        let r: String = match entry.as_str() {
            "owned" => format!("{:?}", erltf::decode(&data).map(|t| t.type_name())),
            "borrowed" => format!("{:?}", erltf::decoder::decode_borrowed(&data).map(|_| "term").map_err(|e| e.error)),
            "with_trailing" => format!("{:?}", erltf::decoder::decode_with_trailing(&data).map(|(t, _)| t.type_name())),
            "atom_cache" => {
                let mut c = erltf::decoder::AtomCache::new();
                format!("{:?}", erltf::decoder::decode_with_atom_cache(&data, &mut c).map(|(t, _)| t.type_name()))
            }
            "fragment_header" => format!("{:?}", erltf::decoder::decode_fragment_header(&data).map(|(h, _)| h.fragment_id)),
            _ => "unknown entry".to_string(),
        };
        r
    }).expect("spawn");
    let res = h.join();
    let max_req = crate::alloc_probe::max_req();
    let budget = 64 * (len + extra) + 65536;
    match res {
        Ok(r) => (max_req <= budget, json!({"result": r.chars().take(80).collect::<String>(), "input_len": len, "max_single_allocation": max_req, "budget": budget})),
        Err(_) => (false, json!({"result": "panic", "input_len": len})),
    }
}

/// terms written as JSON: {"int":n} {"float":x} {"big":{"neg":b,"digits":[..]}} {"atom":"a"} {"bin":[..]} {"bitbin":[[..],bits]}
/// {"list":[..]} {"improper":[[..],tail]} {"tuple":[..]} {"map":[[k,v],..]} "nil"
pub fn term(v: &Value) -> erltf::OwnedTerm {
    use erltf::OwnedTerm as T;
    if v.as_str() == Some("nil") { return T::Nil; }
    let o = v.as_object().expect("term object");
    let (k, x) = o.iter().next().unwrap();
    let bytes = |x: &Value| -> Vec<u8> { x.as_array().unwrap().iter().map(|b| b.as_u64().unwrap() as u8).collect() };
    match k.as_str() {
        "int" => T::Integer(i(x)),
        "float" => T::Float(x.as_f64().or_else(|| x.as_str().and_then(|s| s.parse().ok())).unwrap()),
        "big" => T::BigInt(erltf::types::BigInt::new(x["neg"].as_bool().unwrap(), bytes(&x["digits"]))),
        "atom" => T::Atom(erltf::types::Atom::new(x.as_str().unwrap())),
        "atom_rep" => T::Atom(erltf::types::Atom::new(x[0].as_str().unwrap().repeat(x[1].as_u64().unwrap() as usize))),
        "bin" => T::Binary(bytes(x)),
        "bitbin" => T::BitBinary { bytes: bytes(&x[0]), bits: x[1].as_u64().unwrap() as u8 },
        "list" => T::List(x.as_array().unwrap().iter().map(term).collect()),
        "improper" => T::ImproperList { elements: x[0].as_array().unwrap().iter().map(term).collect(), tail: Box::new(term(&x[1])) },
        "tuple" => T::Tuple(x.as_array().unwrap().iter().map(term).collect()),
        "map" => T::Map(x.as_array().unwrap().iter().map(|kv| (term(&kv[0]), term(&kv[1]))).collect()),
        _ => panic!("unknown term kind {k}"),
    }
}
fn gen_atom(a: &Value) -> String {
    if let Some(s) = a.as_str() { s.to_string() } else { a[0].as_str().unwrap().repeat(a[1].as_u64().unwrap() as usize) }
}
/// erl_ext_dist, "Distribution Header": 131 68 N Flags(N/2+1 bytes, half byte per reference, least significant half first;
/// bit 3 = new entry, bits 0-2 = segment index; one more half byte after them whose bit 0 is LongAtoms) then N references:
/// internal index, and for new entries Length (1 byte, 2 if LongAtoms) + text
fn independent_header_atoms(b: &[u8]) -> Option<Vec<String>> {
    if b.len() < 3 || b[0] != 131 || b[1] != 68 { return None; }
    let n = b[2] as usize;
    if n == 0 { return Some(vec![]); }
    let fl = n / 2 + 1;
    let flags = b.get(3..3 + fl)?;
    let half = |i: usize| -> u8 { if i % 2 == 0 { flags[i / 2] & 0x0f } else { flags[i / 2] >> 4 } };
    let long = half(n) & 1 != 0;
    let mut p = 3 + fl;
    let mut out = vec![];
    for i in 0..n {
        let _internal = *b.get(p)?; p += 1;
        if half(i) & 8 != 0 {
            let len = if long { let l = u16::from_be_bytes([*b.get(p)?, *b.get(p + 1)?]) as usize; p += 2; l } else { let l = *b.get(p)? as usize; p += 1; l };
            out.push(String::from_utf8(b.get(p..p + len)?.to_vec()).ok()?);
            p += len;
        } else { return None; }
    }
    Some(out)
}
fn ord_s(o: std::cmp::Ordering) -> &'static str { match o { std::cmp::Ordering::Less => "Less", std::cmp::Ordering::Equal => "Equal", std::cmp::Ordering::Greater => "Greater" } }
fn hash_of(t: &erltf::OwnedTerm) -> u64 { use std::hash::{Hash, Hasher}; let mut h = std::collections::hash_map::DefaultHasher::new(); t.hash(&mut h); h.finish() }

/// input bytes: either literal `bytes`, or a generator
fn gen_bytes(input: &Value) -> Vec<u8> {
    if let Some(a) = input.get("bytes").and_then(|v| v.as_array()) {
        return a.iter().map(|x| x.as_u64().unwrap() as u8).collect();
    }
    match input["gen"].as_str().unwrap_or("") {
        // 131, then `depth` nested one-element LIST_EXT, innermost NIL, then the NIL tails
        "nested_list" => {
            let d = input["depth"].as_u64().unwrap() as usize;
            let mut v = vec![131u8];
            for _ in 0..d { v.extend_from_slice(&[108, 0, 0, 0, 1]); }
            v.push(106);
            for _ in 0..d { v.push(106); }
            v
        }
        // COMPRESSED term declaring `declared` bytes whose zlib stream inflates to `actual` zero bytes of a BINARY_EXT
        // 131 80 <len> zlib(inner): `inner` given literally
        "compressed" => {
            use std::io::Write;
            let inner: Vec<u8> = input["inner"].as_array().unwrap().iter().map(|x| x.as_u64().unwrap() as u8).collect();
            let mut e = flate2::write::ZlibEncoder::new(Vec::new(), flate2::Compression::best());
            e.write_all(&inner).unwrap();
            let z = e.finish().unwrap();
            let mut v = vec![131u8, 80];
            v.extend_from_slice(&(inner.len() as u32).to_be_bytes());
            v.extend_from_slice(&z);
            if let Some(t) = input.get("after").and_then(|x| x.as_array()) { v.extend(t.iter().map(|b| b.as_u64().unwrap() as u8)); }
            if let Some(t) = input.get("wrap_tuple2_then").and_then(|x| x.as_array()) {
                // {Compressed, <term bytes>}: 131 104 2 <80 ...> <term>
                let mut w = vec![131u8, 104, 2];
                w.extend_from_slice(&v[1..]);
                w.extend(t.iter().map(|b| b.as_u64().unwrap() as u8));
                return w;
            }
            v
        }
        "zip_bomb" => {
            use std::io::Write;
            let declared = input["declared"].as_u64().unwrap() as u32;
            let actual = input["actual"].as_u64().unwrap() as usize;
            let mut inner = vec![109u8];
            inner.extend_from_slice(&((actual as u32).to_be_bytes()));
            inner.resize(5 + actual, 0);
            let mut e = flate2::write::ZlibEncoder::new(Vec::new(), flate2::Compression::best());
            e.write_all(&inner).unwrap();
            let z = e.finish().unwrap();
            let mut v = vec![131u8, 80];
            v.extend_from_slice(&declared.to_be_bytes());
            v.extend_from_slice(&z);
            v
        }
        _ => Vec::new(),
    }
}
