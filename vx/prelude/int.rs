// ---- prelude int.rs: assumed contracts on core integer methods (checked against core by Kani harness dep_int) ----
pub assume_specification [i64::abs] (x: i64) -> (r: i64)
    requires x != i64::MIN,
    ensures r >= 0, r == if x >= 0 { x as int } else { -(x as int) };
pub assume_specification [i64::unsigned_abs] (x: i64) -> (r: u64)
    ensures r as int == if x >= 0 { x as int } else { -(x as int) };
pub assume_specification [i128::unsigned_abs] (x: i128) -> (r: u128)
    ensures r as int == if x >= 0 { x as int } else { -(x as int) };
pub assume_specification [<i64 as TryFrom<u64>>::try_from] (x: u64) -> (r: std::result::Result<i64, <i64 as TryFrom<u64>>::Error>)
    ensures r.is_ok() <==> x <= i64::MAX, r matches Ok(v) ==> v == x;
pub assume_specification [i64::wrapping_neg] (x: i64) -> (r: i64)
    ensures r == (if x == i64::MIN { i64::MIN } else { (-(x as int)) as i64 });
pub assume_specification [usize::div_ceil] (x: usize, y: usize) -> (r: usize)
    requires y != 0,
    ensures r as int == (x as int + y as int - 1) / (y as int);
pub assume_specification [i64::abs_diff] (x: i64, y: i64) -> (r: u64) ensures r as int == (if x >= y { x as int - y as int } else { y as int - x as int });
pub assume_specification [u64::abs_diff] (x: u64, y: u64) -> (r: u64) ensures r as int == (if x >= y { x as int - y as int } else { y as int - x as int });
pub assume_specification [usize::abs_diff] (x: usize, y: usize) -> (r: usize) ensures r as int == (if x >= y { x as int - y as int } else { y as int - x as int });
pub assume_specification [i32::unsigned_abs] (x: i32) -> (r: u32) ensures r as int == (if x >= 0 { x as int } else { -(x as int) });
pub assume_specification [i64::saturating_add] (x: i64, y: i64) -> (r: i64) ensures r as int == (if x + y > i64::MAX { i64::MAX as int } else if x + y < i64::MIN { i64::MIN as int } else { x + y });
pub assume_specification [i64::saturating_sub] (x: i64, y: i64) -> (r: i64) ensures r as int == (if x - y > i64::MAX { i64::MAX as int } else if x - y < i64::MIN { i64::MIN as int } else { x - y });
pub assume_specification [u64::wrapping_neg] (x: u64) -> (r: u64) ensures r as int == (if x == 0 { 0 } else { 0x1_0000_0000_0000_0000 - x });
pub assume_specification [i64::signum] (x: i64) -> (r: i64) ensures r == (if x > 0 { 1i64 } else if x == 0 { 0i64 } else { -1i64 });
pub assume_specification [i64::rem_euclid] (x: i64, y: i64) -> (r: i64) requires y != 0, y != -1 || x != i64::MIN ensures r as int == (x as int) % (y as int);
pub assume_specification [u32::div_ceil] (x: u32, y: u32) -> (r: u32) requires y != 0 ensures r as int == (x as int + y as int - 1) / (y as int);
pub assume_specification [u64::div_ceil] (x: u64, y: u64) -> (r: u64) requires y != 0 ensures r as int == (x as int + y as int - 1) / (y as int);
pub assume_specification [i64::checked_neg] (x: i64) -> (r: Option<i64>) ensures r == (if x == i64::MIN { None::<i64> } else { Some((-(x as int)) as i64) });
pub assume_specification [i64::checked_abs] (x: i64) -> (r: Option<i64>) ensures r == (if x == i64::MIN { None::<i64> } else { Some((if x >= 0 { x as int } else { -(x as int) }) as i64) });
pub assume_specification [usize::is_power_of_two] (x: usize) -> (r: bool);
pub assume_specification [i64::saturating_abs] (x: i64) -> (r: i64) ensures r as int == (if x == i64::MIN { i64::MAX as int } else if x >= 0 { x as int } else { -(x as int) });
