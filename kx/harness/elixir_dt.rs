// Kani harnesses for crates/edp_elixir_terms/src/date_time.rs (C20): from_term never fabricates a field
use super::*;
extern crate alloc;
fn fmt_stub(_a: std::fmt::Arguments<'_>) -> String { String::new() }

/// ElixirDate::from_term on a well-shaped %Date{} term with ARBITRARY i64 field values: either the term is rejected,
/// or every field of the result is exactly the integer the term carried (no truncation)
#[kani::proof]
#[kani::unwind(24)]
#[kani::stub(alloc::fmt::format, fmt_stub)]
fn date_from_term_no_truncation__complete() {
    let y: i64 = kani::any();
    let m: i64 = kani::any();
    let d: i64 = kani::any();
    let mut map = BTreeMap::new();
    map.insert(OwnedTerm::Atom(Atom::new("__struct__")), OwnedTerm::Atom(Atom::new("Elixir.Date")));
    map.insert(OwnedTerm::Atom(Atom::new("year")), OwnedTerm::Integer(y));
    map.insert(OwnedTerm::Atom(Atom::new("month")), OwnedTerm::Integer(m));
    map.insert(OwnedTerm::Atom(Atom::new("day")), OwnedTerm::Integer(d));
    let term = OwnedTerm::Map(map);
    let r = ElixirDate::from_term(&term);
    match &r {
        Some(x) => { assert!(x.year as i64 == y); assert!(x.month as i64 == m); assert!(x.day as i64 == d); }
        None => {}
    }
    kani::cover!(r.is_some());
    std::mem::forget(r); std::mem::forget(term);
}
