#!/bin/sh
# offline setup: nothing to download; pre-build the native replay binary and warm up Verus.
set -e
cd "$(dirname "$0")"
mkdir -p out/units out/replay evidence
cp /repo/Cargo.lock replay/Cargo.lock 2>/dev/null || true
CARGO_NET_OFFLINE=true CARGO_TARGET_DIR="$PWD/out/replay-target" cargo build --offline --manifest-path replay/Cargo.toml >/dev/null 2>&1 || echo "replay build deferred"
exit 0
