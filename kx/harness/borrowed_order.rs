// Kani harnesses for the duplicated numeric helpers in borrowed.rs (the zero-copy term type)
use super::*;
include!(concat!(env!("VERIF_DIR"), "/kx/bridge/exact_cmp.rs"));
fn ord_i8(o: Ordering) -> i8 { match o { Ordering::Less => -1, Ordering::Equal => 0, Ordering::Greater => 1 } }

#[kani::proof]
fn b_compare_int_float__complete() {
    let i: i64 = kani::any();
    let bits: u64 = kani::any();
    let f = f64::from_bits(bits);
    kani::assume(!f.is_nan());
    let want = exact_cmp_i64_f64(i, bits);
    assert!(ord_i8(compare_int_float(i, f)) == want);
    assert!(ord_i8(compare_float_int(f, i)) == -want);
}

#[kani::proof]
#[kani::unwind(10)]
fn b_bigint_to_u64__complete() {
    let n: usize = kani::any();
    kani::assume(n <= 8);
    let d: [u8; 8] = kani::any();
    let big = BigInt { sign: Sign::Positive, digits: d[..n].to_vec() };
    let mut want: u64 = 0;
    let mut k = 0;
    while k < 8 {
        if k < n { want |= (d[k] as u64) << (8 * k); }
        k += 1;
    }
    assert!(bigint_to_u64(&big) == want);
}

/// scalar arms of the zero-copy order agree with the owned order (Integer / Float / mixed), all values
#[kani::proof]
fn b_scalar_cmp_agrees_with_owned__complete() {
    let a: i64 = kani::any();
    let bits: u64 = kani::any();
    let f = f64::from_bits(bits);
    kani::assume(!f.is_nan());
    let bi = BorrowedTerm::Integer(a);
    let bf = BorrowedTerm::Float(f);
    let oi = OwnedTerm::Integer(a);
    let of = OwnedTerm::Float(f);
    assert!(bi.cmp(&bf) == oi.cmp(&of));
    assert!(bf.cmp(&bi) == of.cmp(&oi));
    let c: i64 = kani::any();
    assert!(bi.cmp(&BorrowedTerm::Integer(c)) == oi.cmp(&OwnedTerm::Integer(c)));
    std::mem::forget(bi); std::mem::forget(bf); std::mem::forget(oi); std::mem::forget(of);
}

// the zero-copy module has its own copy of bigint_to_f64
/// bigint_to_f64 on magnitudes below 2^48 (1..=6 digits, every digit value): exactly the integer, with the sign of the big
/// integer.  Bounded: longer digit strings go through the same loop but round (known finding C12-bigint-float-lossy).
#[kani::proof]
#[kani::unwind(9)]
fn b_bigint_to_f64_small__bounded_6digits() {
    let n: usize = kani::any();
    kani::assume(n >= 1 && n <= 6);
    let d: [u8; 6] = kani::any();
    let neg: bool = kani::any();
    let big = BigInt { sign: if neg { Sign::Negative } else { Sign::Positive }, digits: d[..n].to_vec() };
    let mut m: u64 = 0;
    let mut k = 0;
    while k < 6 { if k < n { m |= (d[k] as u64) << (8 * k); } k += 1; }
    let want = if neg { -(m as f64) } else { m as f64 };
    let got = bigint_to_f64(&big);
    assert!(got == want);
    std::mem::forget(big);
}

/// bigint_to_f64 beyond the range of f64 (129 digits, top digit non-zero: |x| >= 2^1024): the infinity of the big integer's
/// sign.  Bounded: this one digit count, lower digits zero.
#[kani::proof]
#[kani::unwind(131)]
fn b_bigint_to_f64_overflow_sign__bounded_129digits() {
    let top: u8 = kani::any();
    kani::assume(top != 0);
    let neg: bool = kani::any();
    let mut digits = vec![0u8; 129];
    digits[128] = top;
    let big = BigInt { sign: if neg { Sign::Negative } else { Sign::Positive }, digits };
    let got = bigint_to_f64(&big);
    assert!(got.is_infinite());
    assert!(got.is_sign_negative() == neg);
    std::mem::forget(big);
}
