// Kani harnesses for the duplicated numeric helpers in borrowed.rs (the zero-copy term type)
use super::*;
include!(concat!(env!("VERIF_DIR"), "/kx/bridge/exact_cmp.rs"));
fn ord_i8(o: Ordering) -> i8 { match o { Ordering::Less => -1, Ordering::Equal => 0, Ordering::Greater => 1 } }

#[kani::proof]
fn b_compare_int_float__complete() {
    let i: i64 = kani::any();
    let bits: u64 = kani::any();
    let f = f64::from_bits(bits);
    kani::assume(!f.is_nan());
    let want = exact_cmp_i64_f64(i, bits);
    assert!(ord_i8(compare_int_float(i, f)) == want);
    assert!(ord_i8(compare_float_int(f, i)) == -want);
}

#[kani::proof]
#[kani::unwind(10)]
fn b_bigint_to_u64__complete() {
    let n: usize = kani::any();
    kani::assume(n <= 8);
    let d: [u8; 8] = kani::any();
    let big = BigInt { sign: Sign::Positive, digits: d[..n].to_vec() };
    let mut want: u64 = 0;
    let mut k = 0;
    while k < 8 {
        if k < n { want |= (d[k] as u64) << (8 * k); }
        k += 1;
    }
    assert!(bigint_to_u64(&big) == want);
}

/// scalar arms of the zero-copy order agree with the owned order (Integer / Float / mixed), all values
#[kani::proof]
fn b_scalar_cmp_agrees_with_owned__complete() {
    let a: i64 = kani::any();
    let bits: u64 = kani::any();
    let f = f64::from_bits(bits);
    kani::assume(!f.is_nan());
    let bi = BorrowedTerm::Integer(a);
    let bf = BorrowedTerm::Float(f);
    let oi = OwnedTerm::Integer(a);
    let of = OwnedTerm::Float(f);
    assert!(bi.cmp(&bf) == oi.cmp(&of));
    assert!(bf.cmp(&bi) == of.cmp(&oi));
    let c: i64 = kani::any();
    assert!(bi.cmp(&BorrowedTerm::Integer(c)) == oi.cmp(&OwnedTerm::Integer(c)));
    std::mem::forget(bi); std::mem::forget(bf); std::mem::forget(oi); std::mem::forget(of);
}
