"""Kani engine (DESIGN.md 2.2) -- filled in below."""
import time


def run_harnesses(pid, jobs, tier, seed):
    return {'harnesses': [], 'trusted': [], 'time_s': 0}
