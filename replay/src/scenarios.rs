use serde_json::{json, Value};

fn i(v: &Value) -> i64 {
    v.as_i64().or_else(|| v.as_str().and_then(|s| s.parse().ok())).expect("i64")
}

/// returns (postcondition holds, observed)
pub fn run(scenario: &str, input: &Value) -> Option<(bool, Value)> {
    match scenario {
        // C20: len / contains / iteration of a range agree, no overflow
        "range" => {
            use edp_elixir_terms::ElixirRange;
            let r = ElixirRange::new(i(&input["first"]), i(&input["last"]), i(&input["step"]));
            let probe = input.get("probe").map(i);
            let len = r.len();
            let mut items = Vec::new();
            for (n, v) in r.into_iter().enumerate() {
                if n >= 64 { break; }
                items.push(v);
            }
            let mut ok = true;
            // spec: element k = first + k*step (mathematical), k < len
            for (k, v) in items.iter().enumerate() {
                let want = r.first as i128 + (k as i128) * (r.step as i128);
                ok &= *v as i128 == want && r.contains(*v);
            }
            ok &= if len <= 64 { items.len() == len } else { items.len() == 64 };
            let mut probe_res = Value::Null;
            if let Some(p) = probe {
                let c = r.contains(p);
                let d = p as i128 - r.first as i128;
                let want = len > 0 && r.step != 0 && d % (r.step as i128) == 0 && d / (r.step as i128) >= 0 && ((d / (r.step as i128)) as u128) < len as u128;
                ok &= c == want;
                probe_res = json!({"contains": c, "want": want});
            }
            Some((ok, json!({"len": len, "items": items, "probe": probe_res})))
        }
        _ => None,
    }
}
