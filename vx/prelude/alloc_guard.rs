// ---- prelude alloc_guard.rs: allocation capability (DESIGN C02 ii) ----
// `Vec::with_capacity(n)` (rule R11) and `vec![x; n]` (rule R10) require alloc_ok(n).  alloc_ok is uninterpreted;
// the ONLY ways to obtain it are the two lemmas below: n is bounded by the number of input bytes still
// available (every element costs at least one byte), or n is bounded by a small constant.
pub uninterp spec fn alloc_ok(n: nat) -> bool;
#[verifier::external_body]
pub proof fn lemma_alloc_ok_by_input(n: nat, avail: nat) requires n <= avail ensures alloc_ok(n) {}
#[verifier::external_body]
pub proof fn lemma_alloc_ok_small(n: nat) requires n <= 65536 ensures alloc_ok(n) {}
#[verifier::external_body]
pub fn vec_with_capacity<T>(n: usize) -> (r: Vec<T>) requires alloc_ok(n as nat) ensures r@ == Seq::<T>::empty() { Vec::with_capacity(n) }
#[verifier::external_body]
pub fn vec_from_elem<T: Clone>(x: T, n: usize) -> (r: Vec<T>) requires alloc_ok(n as nat) ensures r@.len() == n, forall|i: int| 0 <= i < n ==> r@[i] == x { vec![x; n] }
