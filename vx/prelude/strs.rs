// ---- prelude strs.rs: `String`/`str` are replaced (declared rule T1) by `Str`, a byte-string with the same
// observable bytes; UTF-8 validity is not modelled.  Assumed: as_bytes/len/is_empty agree with the bytes. ----
pub struct Str { pub b: Vec<u8> }
impl Str {
    pub open spec fn view(&self) -> Seq<u8> { self.b@ }
    #[verifier::external_body] pub fn as_bytes(&self) -> (r: &[u8]) ensures r@ == self@ { unimplemented!() }
    #[verifier::external_body] pub fn len(&self) -> (r: usize) ensures r == self@.len() { unimplemented!() }
    #[verifier::external_body] pub fn is_empty(&self) -> (r: bool) ensures r == (self@.len() == 0) { unimplemented!() }
}
// message texts are not modelled (R4): every format!/to_string result is an arbitrary Str
#[verifier::external_body] pub fn fmt_shim() -> (r: Str) { unimplemented!() }
