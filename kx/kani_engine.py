"""Kani engine (DESIGN.md 2.2): harness modules are appended as #[cfg(kani)] child modules to a
scratch copy of /repo; nothing in /repo is touched.  One `cargo kani` invocation per crate, harnesses in
parallel.  Harness naming: <what>__complete (full-domain, loop-free or width-bounded: counts as proved) or
<what>__bounded_<bound> (stand-in, reported separately)."""
import os
import re
import sys
import json
import time
import shutil
import subprocess
import threading

VERIF = os.path.dirname(os.path.dirname(os.path.abspath(__file__)))
REPO = os.environ.get('VERIF_REPO', '/repo')
SCRATCH = os.path.join(VERIF, 'out', 'kani-scratch')
_lock = threading.Lock()

LIB_CRATES = ['erltf', 'erltf_serde', 'erltf_serde_derive', 'edp_client', 'edp_node', 'edp_elixir_terms']


def prepare_scratch(groups):
    """rsync /repo into the scratch dir, trim the workspace, patch tracing, append harness modules"""
    os.makedirs(SCRATCH, exist_ok=True)
    p = subprocess.run(['rsync', '-a', '--delete', '--exclude', 'target', '--exclude', '.git', REPO + '/', SCRATCH + '/'],
                       capture_output=True, text=True)
    if p.returncode != 0:
        raise RuntimeError('rsync failed: ' + p.stderr[-500:])
    ct = open(os.path.join(SCRATCH, 'Cargo.toml')).read()
    ct = re.sub(r'members\s*=\s*\[[^\]]*\]', 'members = [%s]' % ', '.join('"crates/%s"' % c for c in LIB_CRATES), ct)
    ct += '\n[patch.crates-io]\ntracing = { path = "%s" }\n' % os.path.join(VERIF, 'kx', 'stubs', 'tracing')
    open(os.path.join(SCRATCH, 'Cargo.toml'), 'w').write(ct)
    for c in LIB_CRATES:
        mp = os.path.join(SCRATCH, 'crates', c, 'Cargo.toml')
        m = open(mp).read()
        m = re.sub(r'(?ms)^\[dev-dependencies\].*?(?=^\[|\Z)', '', m)
        m = re.sub(r'(?ms)^\[\[bench\]\].*?(?=^\[|\Z)', '', m)
        m = re.sub(r'(?ms)^\[\[example\]\].*?(?=^\[|\Z)', '', m)
        if '[lints' not in m:
            m += '\n[lints.rust]\nunexpected_cfgs = { level = "allow", check-cfg = ["cfg(kani)"] }\n'
        open(mp, 'w').write(m)
    os.makedirs(os.path.join(SCRATCH, '.cargo'), exist_ok=True)
    open(os.path.join(SCRATCH, '.cargo', 'config.toml'), 'w').write('[net]\noffline = true\n')
    done = set()
    for g in groups:
        key = (g['inject'], g['file'])
        if key in done:
            continue
        done.add(key)
        tgt = os.path.join(SCRATCH, g['inject'])
        if not os.path.exists(tgt):
            raise FileNotFoundError('inject target missing: ' + g['inject'])
        modname = 'verif_kani_' + re.sub(r'\W', '_', os.path.basename(g['file']).rsplit('.', 1)[0])
        with open(tgt, 'a') as f:
            f.write('\n#[cfg(kani)]\n#[path = "%s"]\nmod %s;\n' % (os.path.join(VERIF, g['file']), modname))
        # crate-level feature gates some harness files need
        if g.get('crate_attrs'):
            lib = os.path.join(SCRATCH, 'crates', g['crate'], 'src', 'lib.rs')
            s = open(lib).read()
            open(lib, 'w').write(g['crate_attrs'] + '\n' + s)


def parse_output(out, names):
    """per-harness status from cargo kani output (sequential or -j: results are tagged `Thread N:`)"""
    res = {}
    cur = {}          # thread id (or None) -> harness short name
    bodies = {}       # harness -> text
    tokens = re.split(r'(?m)^((?:Thread \d+: )?Checking harness [\w:]+\.\.\.|Thread \d+: *$)', out)
    active = None
    for tok in tokens:
        m = re.match(r'(?:Thread (\d+): )?Checking harness ([\w:]+)\.\.\.', tok)
        if m:
            th = m.group(1)
            name = m.group(2).split('::')[-1]
            cur[th] = name
            bodies.setdefault(name, '')
            active = name if th is None else None
            continue
        m = re.match(r'Thread (\d+): *$', tok)
        if m:
            active = cur.get(m.group(1))
            continue
        if active is not None:
            bodies[active] = bodies.get(active, '') + tok
    failed_summary = set(x.split('::')[-1] for x in re.findall(r'Verification failed for - ([\w:]+)', out))
    have_summary = 'Manual Harness Summary' in out or re.search(r'Complete - \d+ successfully verified', out)
    for short, body in bodies.items():
        st = None
        if 'VERIFICATION:- SUCCESSFUL' in body:
            st = 'ok'
        elif 'VERIFICATION:- FAILED' in body:
            st = 'fail'
        if short in failed_summary:
            st = 'fail'
        cov = re.search(r'\*\* (\d+) of (\d+) cover properties satisfied', body)
        fails = re.findall(r'Failed Checks: (.*)', body)
        if st == 'fail' and (re.search(r'CBMC failed with status|CBMC timed out|out of memory|std::bad_alloc', body) or not fails):
            # the back end died (memory limit, crash) or printed no failed check: no verdict, never an alarm
            st = None
        if st == 'fail' and fails and all('unwinding assertion' in f for f in fails):
            # the harness bound was too small for the code as it is now: nothing was decided (never an alarm)
            st = None
        res[short] = {'status': st, 'cover': (int(cov.group(1)), int(cov.group(2))) if cov else None, 'failed_checks': fails[:6], 'body': body[-3000:],
                      'stubs': re.findall(r'- Stub: (.*)', body)}
        cv = re.search(r'let concrete_vals: Vec<Vec<u8>> = vec!\[(.*?)\n\s*\];', body, re.S)
        if cv:
            vals = []
            for m in re.finditer(r'vec!\[([^\]]*)\]', cv.group(1)):
                vals.append([int(x) for x in m.group(1).split(',') if x.strip()])
            res[short]['concrete_vals'] = vals
    return res


def decode_witness(h, vals):
    """map concrete playback byte vectors (little endian, in kani::any() call order) to the replay scenario input"""
    w = h.get('witness')
    if not w or not vals:
        return None
    inp = {}
    vals = list(vals)
    for fld in w['fields']:
        name, ty = fld[0], fld[1]
        if ty == 'bytes':
            # an array [u8; K] is K separate any() calls in the playback
            k = fld[2] if len(fld) > 2 else 1
            chunk, vals = vals[:k], vals[k:]
            inp[name] = [b for v in chunk for b in v]
            continue
        if not vals:
            break
        v, vals = vals[0], vals[1:]
        n = int.from_bytes(bytes(v), 'little', signed=False)
        if ty.startswith('i'):
            bits = int(ty[1:])
            if n >= 1 << (bits - 1):
                n -= 1 << bits
        if ty == 'bool':
            inp[name] = bool(n)
        else:
            inp[name] = str(n) if abs(n) > 2 ** 53 else n
    inp.update(w.get('const', {}))
    return {'scenario': w['scenario'], 'input': inp}


def run_group(cmd, env, tmo):
    """run cargo kani in its own process group; on time-out kill the whole group (cbmc children included)"""
    import signal
    import resource

    def limit():
        # no swap on this machine: a runaway cbmc must fail (-> undecided), not take the box down
        lim = int(os.environ.get('VERIF_KANI_MEM_GB', '20')) << 30
        resource.setrlimit(resource.RLIMIT_AS, (lim, lim))
    p = subprocess.Popen(cmd, cwd=SCRATCH, stdout=subprocess.PIPE, stderr=subprocess.STDOUT, text=True, env=env, start_new_session=True,
                         preexec_fn=limit)
    try:
        out, _ = p.communicate(timeout=tmo)
        return out
    except subprocess.TimeoutExpired:
        try:
            os.killpg(os.getpgid(p.pid), signal.SIGKILL)
        except Exception:
            pass
        try:
            out, _ = p.communicate(timeout=30)
        except Exception:
            out = ''
        return (out or '') + '\nTIMEOUT'


def run_harnesses(pid, groups, tier, seed):
    t0 = time.time()
    info = {'harnesses': [], 'trusted': [], 'time_s': 0}
    import fcntl
    os.makedirs(os.path.join(VERIF, 'out'), exist_ok=True)
    flock = open(os.path.join(VERIF, 'out', 'kani.lock'), 'w')
    fcntl.flock(flock, fcntl.LOCK_EX)          # one scratch copy: Kani runs of concurrent checks are serialised
    with _lock:
        try:
            prepare_scratch(groups)
        except Exception as e:
            for g in groups:
                for h in g['harnesses']:
                    info['harnesses'].append({'name': h['name'], 'status': 'undecided', 'reason': 'scratch: %s' % e})
            return info
        by_crate = {}
        for g in groups:
            by_crate.setdefault(g['crate'], []).append(g)
        for crate, gs in by_crate.items():
            hs = []
            for g in gs:
                for h in g['harnesses']:
                    if h.get('thorough_only') and tier != 'thorough':
                        continue
                    hs.append((g, h))
            if not hs:
                continue
            cmd = ['cargo', 'kani', '-p', crate, '-Z', 'function-contracts', '-Z', 'stubbing',
                   '-j', str(min(12, len(hs))), '--output-format', 'terse']
            for g in gs:
                for f in g.get('features', []):
                    if '--features' not in cmd:
                        cmd += ['--features', f]
            for g, h in hs:
                cmd += ['--harness', h['name']]
            env = dict(os.environ, VERIF_DIR=VERIF, CARGO_NET_OFFLINE='true', CARGO_TARGET_DIR=os.path.join(VERIF, 'out', 'kani-target'))
            tmo = max(h.get('timeout', 600) for g, h in hs) + 120
            out = run_group(cmd, env, tmo)
            os.makedirs(os.path.join(VERIF, 'out', 'kani-logs'), exist_ok=True)
            open(os.path.join(VERIF, 'out', 'kani-logs', '%s-%s.log' % (pid, crate)), 'w').write(out)
            parsed = parse_output(out, [h['name'] for g, h in hs])
            for g, h in hs:
                r = parsed.get(h['name'])
                ent = {'name': h['name'], 'src': g['inject'], 'bounded': h.get('bounded'), 'time_s': None}
                if r is None or r['status'] is None:
                    ent.update(status='undecided', reason='no verdict from kani (compile error, crash or time-out): ' + out[-1500:])
                else:
                    ent['status'] = r['status']
                    ent['tail'] = r['body']
                    if r['cover'] and r['cover'][0] < r['cover'][1] and r['status'] == 'ok':
                        ent.update(status='undecided', reason='vacuity: cover property unsatisfied (%d of %d)' % r['cover'])
                    for s in h.get('require_stubs', []):
                        pass
                    if r['status'] == 'fail':
                        ent['failed_checks'] = r['failed_checks']
                        if h.get('witness'):
                            # second run of just this harness with concrete playback (incompatible with -j)
                            cmd2 = ['cargo', 'kani', '-p', crate, '-Z', 'function-contracts', '-Z', 'stubbing', '-Z', 'concrete-playback',
                                    '--concrete-playback=print', '--output-format', 'terse', '--harness', h['name']]
                            try:
                                o2 = run_group(cmd2, env, h.get('timeout', 600) + 300)
                                r2 = parse_output(o2, [h['name']]).get(h['name'], {})
                                ent['witness'] = decode_witness(h, r2.get('concrete_vals'))
                            except Exception:
                                pass
                info['harnesses'].append(ent)
    info['trusted'] = ['kani-compiler 0.68 / CBMC 6.11 (bit-precise; atomics sequential; no threads)',
                       '`tracing` replaced by a no-op stub crate in the scratch build (logging does not influence results)']
    info['time_s'] = time.time() - t0
    return info


if __name__ == '__main__':
    props = json.load(open(os.path.join(VERIF, 'props.json')))
    groups = props[sys.argv[1]]['kani']
    if len(sys.argv) > 3:
        # only the harnesses named on the command line
        for g in groups:
            g['harnesses'] = [h for h in g['harnesses'] if h['name'] in sys.argv[3:]]
        groups = [g for g in groups if g['harnesses']]
    r = run_harnesses(sys.argv[1], groups, sys.argv[2] if len(sys.argv) > 2 else 'quick', 0)
    for h in r['harnesses']:
        h2 = dict(h)
        t = h2.pop('tail', '')
        print(json.dumps(h2)[:1500])
        if h['status'] != 'ok':
            print(t[-1500:])
    print('time', r['time_s'])
