// Kani harnesses for crates/erltf/src/encoder.rs
use super::*;
include!(concat!(env!("VERIF_DIR"), "/kx/bridge/int_ext.rs"));

/// encode_integer writes exactly the bytes of the bridge function for EVERY i64 (the only loop is over the
/// 8 bytes of the magnitude: width-bounded, unwinding assertions on => complete)
#[kani::proof]
#[kani::unwind(13)]
fn encode_integer__complete() {
    let v: i64 = kani::any();
    let mut buf = BytesMut::with_capacity(16);
    let r = encode_integer(&mut buf, v);
    assert!(r.is_ok());
    let (want, n) = int_ext_bytes(v);
    assert!(buf.len() == n);
    let mut k = 0;
    while k < 11 {
        if k < n { assert!(buf[k] == want[k]); }
        k += 1;
    }
    kani::cover!(v == 2147483648);
    std::mem::forget(r);
}

/// encode_float writes 70 followed by the big-endian IEEE-754 bits
#[kani::proof]
#[kani::unwind(10)]
fn encode_float__complete() {
    let bits: u64 = kani::any();
    let f = f64::from_bits(bits);
    let mut buf = BytesMut::with_capacity(16);
    let r = encode_float(&mut buf, f);
    assert!(r.is_ok());
    assert!(buf.len() == 9 && buf[0] == 70);
    let be = bits.to_be_bytes();
    let mut k = 0;
    while k < 8 { assert!(buf[1 + k] == be[k]); k += 1; }
    std::mem::forget(r);
}
