// Kani harnesses for crates/erltf_serde/src/de.rs + ser.rs (C15): primitive types over their whole ranges
use super::*;
extern crate alloc;
use erltf::types::{BigInt, Sign};
fn fmt_stub(_a: std::fmt::Arguments<'_>) -> String { String::new() }

macro_rules! term_trip {
    ($name:ident, $t:ty) => {
        #[kani::proof]
        #[kani::unwind(12)]
        #[kani::stub(alloc::fmt::format, fmt_stub)]
        fn $name() {
            let v: $t = kani::any();
            let term = crate::to_term(&v).unwrap();
            let back: $t = crate::from_term(&term).unwrap();
            assert!(back == v);
            std::mem::forget(term);
        }
    };
}
term_trip!(term_trip_i8__complete, i8);
term_trip!(term_trip_i16__complete, i16);
term_trip!(term_trip_i32__complete, i32);
term_trip!(term_trip_i64__complete, i64);
term_trip!(term_trip_u8__complete, u8);
term_trip!(term_trip_u16__complete, u16);
term_trip!(term_trip_u32__complete, u32);
term_trip!(term_trip_u64__complete, u64);

/// what comes back from the wire for a wide integer is a big integer of at most 8 digits: every integer
/// deserializer reads its value, and rejects (never alters) what does not fit
#[kani::proof]
#[kani::unwind(12)]
#[kani::stub(alloc::fmt::format, fmt_stub)]
fn bigint_form_is_read_by_value__complete() {
    let n: usize = kani::any();
    kani::assume(n <= 8);
    let d: [u8; 8] = kani::any();
    let neg: bool = kani::any();
    let term = OwnedTerm::BigInt(BigInt { sign: if neg { Sign::Negative } else { Sign::Positive }, digits: d[..n].to_vec() });
    let mut m: u128 = 0;
    let mut k = 0;
    while k < 8 { if k < n { m |= (d[k] as u128) << (8 * k); } k += 1; }
    let val: i128 = if neg { -(m as i128) } else { m as i128 };
    assert!(integer_value(&term) == Some(val));
    match crate::from_term::<i64>(&term) { Ok(x) => assert!(x as i128 == val), Err(_) => assert!(val < i64::MIN as i128 || val > i64::MAX as i128) }
    match crate::from_term::<u64>(&term) { Ok(x) => assert!(x as i128 == val), Err(_) => assert!(val < 0 || val > u64::MAX as i128) }
    match crate::from_term::<i32>(&term) { Ok(x) => assert!(x as i128 == val), Err(_) => assert!(val < i32::MIN as i128 || val > i32::MAX as i128) }
    match crate::from_term::<u8>(&term) { Ok(x) => assert!(x as i128 == val), Err(_) => assert!(val < 0 || val > 255) }
    std::mem::forget(term);
}

#[kani::proof]
#[kani::unwind(12)]
#[kani::stub(alloc::fmt::format, fmt_stub)]
fn term_trip_bool_unit_f64__complete() {
    let b: bool = kani::any();
    let t = crate::to_term(&b).unwrap();
    assert!(crate::from_term::<bool>(&t).unwrap() == b);
    let bits: u64 = kani::any();
    let f = f64::from_bits(bits);
    let tf = crate::to_term(&f).unwrap();
    assert!(crate::from_term::<f64>(&tf).unwrap().to_bits() == bits);
    let tu = crate::to_term(&()).unwrap();
    assert!(crate::from_term::<()>(&tu).is_ok());
    std::mem::forget(t); std::mem::forget(tf); std::mem::forget(tu);
}
