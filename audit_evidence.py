#!/usr/bin/env python3
"""Sanity audit of the committed evidence files (run before committing): each must come from a clean run on the
unchanged tree (discharged == obligations, no violation recorded) and validate against the schema."""
import json, os, sys, subprocess
bad = 0
schema = json.load(open('/root/.vp/EVIDENCE.schema.json'))
try:
    import jsonschema
except ImportError:
    jsonschema = None
for f in sorted(os.listdir('/verif/evidence')):
    e = json.load(open('/verif/evidence/' + f))
    c = e.get('coverage', {})
    if c.get('obligations') != c.get('discharged') or c.get('undecided'):
        print('NOT CLEAN', f, c.get('obligations'), c.get('discharged'), c.get('undecided')); bad += 1
    if jsonschema:
        try:
            jsonschema.validate(e, schema)
        except Exception as ex:
            print('SCHEMA', f, str(ex)[:200]); bad += 1
print('evidence files:', len(os.listdir('/verif/evidence')), 'problems:', bad)
sys.exit(1 if bad else 0)
