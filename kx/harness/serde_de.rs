// Kani harnesses for crates/erltf_serde/src/de.rs + ser.rs (C15): primitive types over their whole ranges
use super::*;
extern crate alloc;
use erltf::types::{BigInt, Sign};
fn fmt_stub(_a: std::fmt::Arguments<'_>) -> String { String::new() }

macro_rules! term_trip {
    ($name:ident, $t:ty) => {
        #[kani::proof]
        #[kani::unwind(12)]
        #[kani::stub(alloc::fmt::format, fmt_stub)]
        fn $name() {
            let v: $t = kani::any();
            let term = crate::to_term(&v).unwrap();
            let back: $t = crate::from_term(&term).unwrap();
            assert!(back == v);
            std::mem::forget(term);
        }
    };
}
term_trip!(term_trip_i8__complete, i8);
term_trip!(term_trip_i16__complete, i16);
term_trip!(term_trip_i32__complete, i32);
term_trip!(term_trip_i64__complete, i64);
term_trip!(term_trip_u8__complete, u8);
term_trip!(term_trip_u16__complete, u16);
term_trip!(term_trip_u32__complete, u32);
term_trip!(term_trip_u64__complete, u64);

/// what comes back from the wire for a wide integer is a big integer of at most 8 digits: `integer_value` (the one
/// reader every integer deserializer goes through) returns exactly its value.  8 symbolic digits (leading zero
/// digits allowed, every digit count 1..=8) cover every magnitude below 2^64 in every form.
#[kani::proof]
#[kani::unwind(12)]
#[kani::stub(alloc::fmt::format, fmt_stub)]
fn bigint_form_is_read_by_value__complete() {
    let d: [u8; 8] = kani::any();
    let neg: bool = kani::any();
    // every digit count the wire can deliver for a magnitude below 2^64 (1..=8; non-minimal forms included)
    let n: usize = kani::any();
    kani::assume(n >= 1 && n <= 8);
    let mut digits: Vec<u8> = Vec::with_capacity(8);
    let mut k = 0;
    while k < 8 { if k < n { digits.push(d[k]); } k += 1; }
    let term = OwnedTerm::BigInt(BigInt { sign: if neg { Sign::Negative } else { Sign::Positive }, digits });
    let mut m: u128 = 0;
    let mut k = 0;
    while k < 8 { if k < n { m |= (d[k] as u128) << (8 * k); } k += 1; }
    let val: i128 = if neg { -(m as i128) } else { m as i128 };
    assert!(integer_value(&term) == Some(val));
    std::mem::forget(term);
}

/// ... and the i64 / u64 deserializers return that value or reject (never alter) what does not fit
#[kani::proof]
#[kani::unwind(12)]
#[kani::stub(alloc::fmt::format, fmt_stub)]
fn bigint_form_from_term_i64__complete() {
    let d: [u8; 8] = kani::any();
    let neg: bool = kani::any();
    // every digit count the wire can deliver for a magnitude below 2^64 (1..=8; non-minimal forms included)
    let n: usize = kani::any();
    kani::assume(n >= 1 && n <= 8);
    let mut digits: Vec<u8> = Vec::with_capacity(8);
    let mut k = 0;
    while k < 8 { if k < n { digits.push(d[k]); } k += 1; }
    let term = OwnedTerm::BigInt(BigInt { sign: if neg { Sign::Negative } else { Sign::Positive }, digits });
    let mut m: u128 = 0;
    let mut k = 0;
    while k < 8 { if k < n { m |= (d[k] as u128) << (8 * k); } k += 1; }
    let val: i128 = if neg { -(m as i128) } else { m as i128 };
    let r = crate::from_term::<i64>(&term);
    match &r { Ok(x) => assert!(*x as i128 == val), Err(_) => assert!(val < i64::MIN as i128 || val > i64::MAX as i128) }
    std::mem::forget(r);
    std::mem::forget(term);
}

#[kani::proof]
#[kani::unwind(12)]
#[kani::stub(alloc::fmt::format, fmt_stub)]
fn bigint_form_from_term_u64__complete() {
    let d: [u8; 8] = kani::any();
    let neg: bool = kani::any();
    // every digit count the wire can deliver for a magnitude below 2^64 (1..=8; non-minimal forms included)
    let n: usize = kani::any();
    kani::assume(n >= 1 && n <= 8);
    let mut digits: Vec<u8> = Vec::with_capacity(8);
    let mut k = 0;
    while k < 8 { if k < n { digits.push(d[k]); } k += 1; }
    let term = OwnedTerm::BigInt(BigInt { sign: if neg { Sign::Negative } else { Sign::Positive }, digits });
    let mut m: u128 = 0;
    let mut k = 0;
    while k < 8 { if k < n { m |= (d[k] as u128) << (8 * k); } k += 1; }
    let val: i128 = if neg { -(m as i128) } else { m as i128 };
    let r = crate::from_term::<u64>(&term);
    match &r { Ok(x) => assert!(*x as i128 == val), Err(_) => assert!(val < 0 || val > u64::MAX as i128) }
    std::mem::forget(r);
    std::mem::forget(term);
}

#[kani::proof]
#[kani::unwind(12)]
#[kani::stub(alloc::fmt::format, fmt_stub)]
fn term_trip_f64__complete() {
    let bits: u64 = kani::any();
    let f = f64::from_bits(bits);
    let tf = crate::to_term(&f).unwrap();
    assert!(crate::from_term::<f64>(&tf).unwrap().to_bits() == bits);
    std::mem::forget(tf);
}

#[kani::proof]
#[kani::unwind(12)]
#[kani::stub(alloc::fmt::format, fmt_stub)]
fn term_trip_f32__complete() {
    let bits: u32 = kani::any();
    let f = f32::from_bits(bits);
    kani::assume(!f.is_nan());               // NaN payloads are excluded by the property
    let tf = crate::to_term(&f).unwrap();
    assert!(crate::from_term::<f32>(&tf).unwrap().to_bits() == bits);
    std::mem::forget(tf);
}

#[kani::proof]
#[kani::unwind(12)]
#[kani::stub(alloc::fmt::format, fmt_stub)]
fn term_trip_bool__complete() {
    let b: bool = kani::any();
    let tb = crate::to_term(&b).unwrap();
    let rb = crate::from_term::<bool>(&tb);
    match &rb { Ok(x) => assert!(*x == b), Err(_) => assert!(false) }
    std::mem::forget(rb); std::mem::forget(tb);
}

#[kani::proof]
#[kani::unwind(12)]
#[kani::stub(alloc::fmt::format, fmt_stub)]
fn term_trip_unit__complete() {
    let tu = crate::to_term(&()).unwrap();
    let ru = crate::from_term::<()>(&tu);
    assert!(ru.is_ok());
    std::mem::forget(ru); std::mem::forget(tu);
}

#[kani::proof]
#[kani::unwind(12)]
#[kani::stub(alloc::fmt::format, fmt_stub)]
fn term_trip_option_i32__complete() {
    let o: Option<i32> = kani::any();
    let to = crate::to_term(&o).unwrap();
    let ro = crate::from_term::<Option<i32>>(&to);
    match &ro { Ok(x) => assert!(*x == o), Err(_) => assert!(false) }
    std::mem::forget(ro); std::mem::forget(to);
}

#[kani::proof]
#[kani::unwind(12)]
#[kani::stub(alloc::fmt::format, fmt_stub)]
fn term_trip_char__complete() {
    let c: char = kani::any();
    let tc = crate::to_term(&c).unwrap();
    let rc = crate::from_term::<char>(&tc);
    match &rc { Ok(x) => assert!(*x == c), Err(_) => assert!(false) }
    std::mem::forget(rc); std::mem::forget(tc);
}

