// ---- prelude int.rs: assumed contracts on core integer methods (checked against core by Kani harness dep_int) ----
pub assume_specification [i64::abs] (x: i64) -> (r: i64)
    requires x != i64::MIN,
    ensures r >= 0, r == if x >= 0 { x as int } else { -(x as int) };
pub assume_specification [i64::unsigned_abs] (x: i64) -> (r: u64)
    ensures r as int == if x >= 0 { x as int } else { -(x as int) };
pub assume_specification [i128::unsigned_abs] (x: i128) -> (r: u128)
    ensures r as int == if x >= 0 { x as int } else { -(x as int) };
pub assume_specification [<i64 as TryFrom<u64>>::try_from] (x: u64) -> (r: std::result::Result<i64, <i64 as TryFrom<u64>>::Error>)
    ensures r.is_ok() <==> x <= i64::MAX, r matches Ok(v) ==> v == x;
pub assume_specification [i64::wrapping_neg] (x: i64) -> (r: i64)
    ensures r == (if x == i64::MIN { i64::MIN } else { (-(x as int)) as i64 });
pub assume_specification [usize::div_ceil] (x: usize, y: usize) -> (r: usize)
    requires y != 0,
    ensures r as int == (x as int + y as int - 1) / (y as int);
