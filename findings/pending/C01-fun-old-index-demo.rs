use erltf::types::{Atom, ExternalPid, InternalFun};
use erltf::{decode, encode, OwnedTerm};
fn f(old_index: u32) -> OwnedTerm {
    OwnedTerm::InternalFun(Box::new(InternalFun {
        arity: 1, uniq: [7; 16], index: 3, num_free: 0, module: Atom::new("m"),
        old_index, old_uniq: 5, pid: ExternalPid::new(Atom::new("n@h"), 1, 2, 3), free_vars: vec![],
    }))
}
#[test]
fn small_old_index_round_trips() { let t = f(0x7fff_ffff); assert_eq!(decode(&encode(&t).unwrap()).unwrap(), t); }
#[test]
fn large_old_index_round_trips() { let t = f(0x8000_0000); let b = encode(&t).unwrap(); println!("{:?}", b); assert_eq!(decode(&b).unwrap(), t); }
