// ---- prelude buf.rs: `bytes::Buf` on `&[u8]` (assumed; Kani-checked against bytes 1.11: group dep_bytes_buf) ----
pub trait Buf {
    spec fn rem(&self) -> Seq<u8>;
    fn remaining(&self) -> (r: usize) ensures r == self.rem().len();
    fn get_u8(&mut self) -> (r: u8) requires old(self).rem().len() >= 1
        ensures r == old(self).rem()[0], final(self).rem() == old(self).rem().skip(1);
    fn get_u16(&mut self) -> (r: u16) requires old(self).rem().len() >= 2
        ensures r == be_u16_val(old(self).rem()), final(self).rem() == old(self).rem().skip(2);
    fn get_u32(&mut self) -> (r: u32) requires old(self).rem().len() >= 4
        ensures r == be_u32_val(old(self).rem()), final(self).rem() == old(self).rem().skip(4);
    fn get_u64(&mut self) -> (r: u64) requires old(self).rem().len() >= 8
        ensures r == be_u64_val(old(self).rem()), final(self).rem() == old(self).rem().skip(8);
    fn copy_to_slice(&mut self, dst: &mut [u8]) requires old(self).rem().len() >= old(dst)@.len()
        ensures final(dst)@ == old(self).rem().take(old(dst)@.len() as int), final(self).rem() == old(self).rem().skip(old(dst)@.len() as int);
}
impl<'a> Buf for &'a [u8] {
    open spec fn rem(&self) -> Seq<u8> { (*self)@ }
    #[verifier::external_body] fn remaining(&self) -> (r: usize) { unimplemented!() }
    #[verifier::external_body] fn get_u8(&mut self) -> (r: u8) { unimplemented!() }
    #[verifier::external_body] fn get_u16(&mut self) -> (r: u16) { unimplemented!() }
    #[verifier::external_body] fn get_u32(&mut self) -> (r: u32) { unimplemented!() }
    #[verifier::external_body] fn get_u64(&mut self) -> (r: u64) { unimplemented!() }
    #[verifier::external_body] fn copy_to_slice(&mut self, dst: &mut [u8]) { unimplemented!() }
}
