// ---- prelude coll.rs: collection shims (assumed contracts) ----
// BTreeMap: a concrete sequence of entries in iteration order.  Assumed: `iter()` yields exactly `entries`
// in order; `len()` is their number.  (Ordering/uniqueness of keys is NOT assumed here.)
pub struct BTreeMap<K, V> { pub entries: Vec<(K, V)> }
impl<K, V> BTreeMap<K, V> {
    pub open spec fn view(&self) -> Seq<(K, V)> { self.entries@ }
    #[verifier::external_body] pub fn len(&self) -> (r: usize) ensures r == self@.len() { unimplemented!() }
    #[verifier::external_body] pub fn is_empty(&self) -> (r: bool) ensures r == (self@.len() == 0) { unimplemented!() }
    #[verifier::external_body] pub fn new() -> (r: Self) ensures r@ == Seq::<(K, V)>::empty() { unimplemented!() }
    // insertion position / replacement is decided by K's Ord: not modelled here (uninterpreted)
    #[verifier::external_body] pub fn insert(&mut self, k: K, v: V) -> (r: Option<V>)
        ensures final(self)@ == bt_insert(old(self)@, k, v), final(self)@.len() <= old(self)@.len() + 1 { unimplemented!() }
    #[verifier::external_body] pub fn iter<'a>(&'a self) -> (r: MapIter<'a, K, V>) ensures r.pos == 0 && r.m == self { unimplemented!() }
}
pub uninterp spec fn bt_insert<K, V>(s: Seq<(K, V)>, k: K, v: V) -> Seq<(K, V)>;
pub struct MapIter<'a, K, V> { pub pos: usize, pub m: &'a BTreeMap<K, V> }
impl<'a, K, V> Iterator for MapIter<'a, K, V> {
    type Item = (&'a K, &'a V);
    #[verifier::external_body]
    fn next(&mut self) -> (r: Option<(&'a K, &'a V)>) { unimplemented!() }
}
impl<'a, K, V> vstd::std_specs::iter::IteratorSpecImpl for MapIter<'a, K, V> {
    open spec fn obeys_prophetic_iter_laws(&self) -> bool { true }
    open spec fn remaining(&self) -> Seq<(&'a K, &'a V)> {
        Seq::new((self.m@.len() - self.pos) as nat, |i: int| (&self.m@[self.pos + i].0, &self.m@[self.pos + i].1))
    }
    open spec fn will_return_none(&self) -> bool { true }
    open spec fn decrease(&self) -> Option<nat> { Some((self.m@.len() - self.pos) as nat) }
    open spec fn peek(&self, i: int) -> Option<(&'a K, &'a V)> {
        if 0 <= i < self.m@.len() - self.pos { Some((&self.m@[self.pos + i].0, &self.m@[self.pos + i].1)) } else { None }
    }
}
#[verifier::prophetic]
pub open spec fn map_iter_seq<'a, K, V>(m: &'a BTreeMap<K, V>) -> Seq<(&'a K, &'a V)> {
    vstd::std_specs::iter::IteratorSpec::remaining(&(MapIter { pos: 0, m: m }))
}

// HashMap with a ghost Map view (vstd has no get_mut spec; its generic signature cannot be matched)
#[verifier::reject_recursive_types(K)]
#[verifier::reject_recursive_types(V)]
#[verifier::external_body]
pub struct HashMap<K, V> { _k: core::marker::PhantomData<(K, V)> }
impl<K, V> HashMap<K, V> {
    pub uninterp spec fn view(&self) -> Map<K, V>;
    #[verifier::external_body] pub fn new() -> (r: Self) ensures r@ == Map::<K, V>::empty() { unimplemented!() }
    #[verifier::external_body] pub fn get(&self, k: &K) -> (r: Option<&V>)
        ensures self@.dom().contains(*k) ==> r == Some(&self@[*k]), !self@.dom().contains(*k) ==> r.is_none() { unimplemented!() }
    #[verifier::external_body] pub fn contains_key(&self, k: &K) -> (r: bool) ensures r == self@.dom().contains(*k) { unimplemented!() }
    #[verifier::external_body] pub fn insert(&mut self, k: K, v: V) -> (r: Option<V>)
        ensures final(self)@ == old(self)@.insert(k, v),
                old(self)@.dom().contains(k) ==> r == Some(old(self)@[k]), !old(self)@.dom().contains(k) ==> r.is_none() { unimplemented!() }
    #[verifier::external_body] pub fn remove(&mut self, k: &K) -> (r: Option<V>)
        ensures final(self)@ == old(self)@.remove(*k),
                old(self)@.dom().contains(*k) ==> r == Some(old(self)@[*k]), !old(self)@.dom().contains(*k) ==> r.is_none() { unimplemented!() }
    #[verifier::external_body] pub fn get_mut(&mut self, k: &K) -> (r: Option<&mut V>)
        ensures old(self)@.dom().contains(*k) ==> r.is_some() && *r.unwrap() == old(self)@[*k]
                    && final(self)@ == old(self)@.insert(*k, *final(r.unwrap())),
                !old(self)@.dom().contains(*k) ==> r.is_none() && final(self)@ == old(self)@ { unimplemented!() }
    #[verifier::external_body] pub fn len(&self) -> (r: usize) ensures r == self@.dom().len() { unimplemented!() }
    #[verifier::external_body] pub fn clear(&mut self) ensures final(self)@ == Map::<K, V>::empty() { unimplemented!() }
}

// `map.retain(|_, v| v != x)` is written `map.retain_values_ne(x)` by rule R17 (the closure is trusted to be that predicate)
impl<K, V> HashMap<K, V> {
    #[verifier::external_body] pub fn retain_values_ne(&mut self, x: &V)
        ensures final(self)@.dom() == old(self)@.dom().filter(|k: K| old(self)@[k] != *x),
                forall|k: K| final(self)@.dom().contains(k) ==> final(self)@[k] == old(self)@[k] { unimplemented!() }
    #[verifier::external_body] pub fn is_empty(&self) -> (r: bool) ensures r == (self@.dom().len() == 0) { unimplemented!() }
}

// a map keyed by strings, viewed by the key's BYTES (DashMap<String, V> / HashMap<String, V>); R9: interior
// mutability of DashMap is written as &mut access (sequential abstraction)
#[verifier::reject_recursive_types(V)]
#[verifier::external_body]
pub struct StrMap<V> { _v: core::marker::PhantomData<V> }
impl<V> StrMap<V> {
    pub uninterp spec fn view(&self) -> Map<Seq<u8>, V>;
    #[verifier::external_body] pub fn insert(&mut self, k: Str, v: V) -> (r: Option<V>)
        ensures final(self)@ == old(self)@.insert(k@, v) { unimplemented!() }
    #[verifier::external_body] pub fn remove(&mut self, k: &Str) -> (r: Option<V>)
        ensures final(self)@ == old(self)@.remove(k@),
                old(self)@.dom().contains(k@) ==> r == Some(old(self)@[k@]), !old(self)@.dom().contains(k@) ==> r.is_none() { unimplemented!() }
    #[verifier::external_body] pub fn contains_key(&self, k: &Str) -> (r: bool) ensures r == self@.dom().contains(k@) { unimplemented!() }
}

// `map.drain().collect()` is written `map.drain_to_vec()` by rule R18: all entries, each key once, map left empty
impl<K, V> HashMap<K, V> {
    #[verifier::external_body] pub fn drain_to_vec(&mut self) -> (r: Vec<(K, V)>)
        ensures final(self)@ == Map::<K, V>::empty(),
                forall|i: int, j: int| 0 <= i < j < r@.len() ==> r@[i].0 != r@[j].0,
                forall|i: int| 0 <= i < r@.len() ==> old(self)@.dom().contains(#[trigger] r@[i].0) && old(self)@[r@[i].0] == r@[i].1,
                forall|k: K| old(self)@.dom().contains(k) ==> exists|i: int| 0 <= i < r@.len() && #[trigger] r@[i].0 == k,
    { unimplemented!() }
}
