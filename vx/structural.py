"""Structural obligations on the extracted text of real functions (DESIGN C16): facts about lock scope that neither
verifier can express because neither models threads.  They are reported separately (backend 'structural')."""
import os
import re
import sys
sys.path.insert(0, os.path.dirname(os.path.abspath(__file__)))
from rustscan import mask, match_brace
import extract


def lock_scope(rel, qual, lock_field, guarded_fields):
    """The guard of `self.<lock_field>.lock()` is bound to a named variable by the FIRST statement of the function
    body, is never dropped explicitly, and so covers every access to the guarded fields."""
    try:
        sf = extract.SourceFile(rel)
        it = sf.find_fn(qual)
    except extract.LostAnchor as e:
        return {'status': 'undecided', 'reason': str(e)}
    body = sf.src[it.body_open + 1:it.end - 1]
    msk = mask(body)
    if lock_field not in msk:
        return {'status': 'undecided', 'reason': 'lock field %s no longer used in %s: locking discipline changed, cannot judge' % (lock_field, qual)}
    # first statement: up to the first ';' at depth 0
    depth = 0
    end = None
    for k, ch in enumerate(msk):
        if ch in '([{':
            depth += 1
        elif ch in ')]}':
            depth -= 1
        elif ch == ';' and depth == 0:
            end = k
            break
    first = body[:end].strip() if end else ''
    m = re.match(r'let\s+(mut\s+)?([A-Za-z_][A-Za-z0-9_]*)\s*=\s*self\s*\.\s*%s\s*\.\s*lock\s*\(' % re.escape(lock_field), first)
    fails = []
    if not m:
        fails.append('the first statement of %s does not bind the guard of self.%s.lock()' % (qual, lock_field))
    else:
        name = m.group(2)
        if name == '_':
            fails.append('the guard is bound to `_` and dropped at once')
        if re.search(r'\bdrop\s*\(\s*%s\s*\)' % re.escape(name), msk):
            fails.append('the guard is dropped explicitly before the end of the function')
    before = body[:end] if end else ''
    for f in guarded_fields:
        if re.search(r'self\s*\.\s*%s\b' % re.escape(f), mask(before)):
            fails.append('self.%s is accessed before the guard is taken' % f)
    line = sf.src.count('\n', 0, it.sig_start) + 1
    return {'status': 'fail' if fails else 'ok', 'fails': fails, 'src': '%s:%d' % (rel, line)}


def fresh_timeout_per_read(rel, qual, param):
    """Every socket read of the receive loop is bounded by a FRESH time-out of the full configured duration
    (`tokio::time::timeout(<param>, <x>.read_exact(..))`): a quiet period filled with ticks then never uses up a
    shared budget.  Time itself is not modelled by either verifier; this is a syntactic obligation."""
    try:
        sf = extract.SourceFile(rel)
        it = sf.find_fn(qual)
    except extract.LostAnchor as e:
        return {'status': 'undecided', 'reason': str(e)}
    body = sf.src[it.body_open + 1:it.end - 1]
    msk = mask(body)
    reads = [m.start() for m in re.finditer(r'\bread_exact\s*\(', msk)]
    if not reads:
        return {'status': 'undecided', 'reason': '%s no longer reads with read_exact: cannot judge' % qual}
    fails = []
    for pos in reads:
        pre = re.sub(r'\s+', '', msk[max(0, pos - 120):pos])
        if not re.search(r'tokio::time::timeout\(%s,[\w.]+\.$' % re.escape(param), pre):
            line = sf.src.count('\n', 0, it.body_open + 1 + pos) + 1
            fails.append('the read at %s:%d is not wrapped in tokio::time::timeout(%s, ..): its time budget is not renewed per read' % (rel, line, param))
    line = sf.src.count('\n', 0, it.sig_start) + 1
    return {'status': 'fail' if fails else 'ok', 'fails': fails, 'src': '%s:%d' % (rel, line)}


def field_kept_for_connection(rel, field, ctor, uses):
    """The field is initialised once (`<field>: <ctor>` in a struct literal), never assigned again (`self.<field> =`,
    `mem::take/replace`, `.clear()`), and every call listed in `uses` receives `&mut self.<field>` (or a parameter that
    was given it): the atom cache lives as long as the connection.  Neither verifier models the connection object
    across awaits; this is a syntactic obligation on the real source."""
    path = os.path.join(os.environ.get('VERIF_REPO', '/repo'), rel)
    try:
        src = open(path).read()
    except OSError as e:
        return {'status': 'undecided', 'reason': str(e)}
    msk = mask(src)
    fails = []
    inits = re.findall(r'\b%s\s*:\s*%s' % (re.escape(field), re.escape(ctor)), msk)
    if len(inits) != 1:
        fails.append('%s is initialised %d times (expected once, in the constructor)' % (field, len(inits)))
    if re.search(r'self\s*\.\s*%s\s*=[^=]' % re.escape(field), msk):
        fails.append('self.%s is assigned after construction' % field)
    if re.search(r'(take|replace)\s*\(\s*&mut\s+self\s*\.\s*%s' % re.escape(field), msk) or re.search(r'self\s*\.\s*%s\s*\.\s*clear\s*\(' % re.escape(field), msk):
        fails.append('self.%s is reset (take/replace/clear)' % field)
    for u in uses:
        calls = [c for c in re.finditer(r'(?<!fn )\b%s\s*\(((?:[^()]|\([^()]*\))*)\)' % re.escape(u), msk, re.S)
                 if not re.search(r'fn\s+$', msk[max(0, c.start() - 8):c.start()])]
        if not calls:
            return {'status': 'undecided', 'reason': 'no call of %s found in %s: the receive path changed shape' % (u, rel)}
        for c in calls:
            if not re.search(r'(&mut\s+self\s*\.\s*%s|\b%s\b)' % (re.escape(field), re.escape(field)), c.group(1)):
                fails.append('a call of %s does not receive the connection\'s %s' % (u, field))
    return {'status': 'fail' if fails else 'ok', 'fails': fails, 'src': '%s:1' % rel}


def no_truncating_cast_of_term_integers(rels):
    """In the Elixir wrapper sources, an integer taken out of a term (`.as_integer()?`, an i64) is never narrowed with an
    `as` cast (which truncates silently) - narrowing goes through a checked conversion.  The wrapper functions walk
    BTreeMap<OwnedTerm,_> with string-keyed atoms: Kani did not finish on them (1000 s at the needed unwind bound) and
    a Verus unit would assume the whole map/atom machinery; the defect class is syntactic, so is the obligation."""
    fails = []
    seen = 0
    for rel in rels:
        path = os.path.join(os.environ.get('VERIF_REPO', '/repo'), rel)
        try:
            src = open(path).read()
        except OSError as e:
            return {'status': 'undecided', 'reason': str(e)}
        msk = mask(src)
        seen += len(re.findall(r'\.as_integer\s*\(\s*\)', msk))
        for m in re.finditer(r'\.as_integer\s*\(\s*\)\s*\?\s*as\s+(u8|u16|u32|i8|i16|i32|usize)\b', msk):
            line = src.count('\n', 0, m.start()) + 1
            fails.append('%s:%d: `.as_integer()? as %s` truncates' % (rel, line, m.group(1)))
    if seen == 0:
        return {'status': 'undecided', 'reason': 'no as_integer() call left in %s: the wrappers changed shape' % ', '.join(rels)}
    return {'status': 'fail' if fails else 'ok', 'fails': fails, 'src': '%s:1' % rels[0]}


def occurs_exactly(rel, pattern, count):
    """a construct occurs exactly `count` times in the (comment- and string-masked) source file"""
    path = os.path.join(os.environ.get('VERIF_REPO', '/repo'), rel)
    try:
        src = open(path).read()
    except OSError as e:
        return {'status': 'undecided', 'reason': str(e)}
    n = len(re.findall(pattern, mask(src)))
    if n == count:
        return {'status': 'ok', 'fails': [], 'src': '%s:1' % rel}
    return {'status': 'fail', 'fails': ['%s occurs %d times in %s (expected %d)' % (pattern, n, rel, count)], 'src': '%s:1' % rel}


def first_statement(rel, qual, regex):
    """the first statement of the function body matches `regex`"""
    try:
        sf = extract.SourceFile(rel)
        it = sf.find_fn(qual)
    except extract.LostAnchor as e:
        return {'status': 'undecided', 'reason': str(e)}
    body = sf.src[it.body_open + 1:it.end - 1]
    msk = mask(body)
    depth, end = 0, None
    for k, ch in enumerate(msk):
        if ch in '([{':
            depth += 1
        elif ch in ')]}':
            depth -= 1
        elif ch == ';' and depth == 0:
            end = k
            break
    first = msk[:end].strip() if end else ''
    line = sf.src.count('\n', 0, it.sig_start) + 1
    if re.search(regex, first):
        return {'status': 'ok', 'fails': [], 'src': '%s:%d' % (rel, line)}
    return {'status': 'fail', 'fails': ['the first statement of %s is `%s`' % (qual, first[:80])], 'src': '%s:%d' % (rel, line)}


def error_text_coupling(user_rel, user_fn, err_rel, variant):
    """The receiver loop decides which errors it survives by looking for a literal in the error's Display text
    (`e.to_string().contains("..")`), while the text is declared in another crate (`#[error("..")]` on the variant).
    Obligation: every literal the loop keys on occurs in the declared text of `variant`.  If the loop matches the variant
    itself instead of its text, the coupling is gone and the obligation holds trivially."""
    try:
        sf = extract.SourceFile(user_rel)
        it = sf.find_fn(user_fn)
        err_src = open(os.path.join(os.environ.get('VERIF_REPO', '/repo'), err_rel)).read()
    except (extract.LostAnchor, OSError) as e:
        return {'status': 'undecided', 'reason': str(e)}
    body = sf.src[it.body_open + 1:it.end - 1]
    body_nc = re.sub(r'//[^\n]*', '', body)
    line = sf.src.count('\n', 0, it.sig_start) + 1
    lits = re.findall(r'to_string\s*\(\s*\)\s*\.\s*contains\s*\(\s*"((?:[^"\\]|\\.)*)"\s*\)', body_nc)
    if not lits:
        if re.search(r'Error\s*::\s*%s\b' % re.escape(variant), mask(body)):
            return {'status': 'ok', 'fails': [], 'src': '%s:%d' % (user_rel, line)}
        return {'status': 'undecided', 'reason': '%s neither looks for a text in the error nor matches Error::%s: cannot judge which errors it survives' % (user_fn, variant)}
    m = re.search(r'#\[error\("((?:[^"\\]|\\.)*)"[^\]]*\)\]\s*(?:#\[[^\]]*\]\s*)*%s\s*[\({]' % re.escape(variant), err_src)
    if not m:
        return {'status': 'undecided', 'reason': 'no #[error("..")] text found for variant %s in %s' % (variant, err_rel)}
    text = m.group(1)
    fails = ['%s survives errors whose text contains "%s", but Error::%s is displayed as "%s" (%s): an undecodable frame ends the receiver'
             % (user_fn, l, variant, text, err_rel) for l in lits if l not in text]
    return {'status': 'fail' if fails else 'ok', 'fails': fails, 'src': '%s:%d' % (user_rel, line)}
