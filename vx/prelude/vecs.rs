// ---- prelude vecs.rs: assumed contracts of Vec / slice methods vstd does not specify ----
// (element clone is structural: assumed, see the Clone impls of the term types)
pub assume_specification<T: Clone> [<[T]>::to_vec] (s: &[T]) -> (r: Vec<T>) ensures r@ == s@;
pub uninterp spec fn into_iter_seq<T, I: IntoIterator<Item = T>>(i: I) -> Seq<T>;
#[verifier::external_body]
pub broadcast proof fn axiom_vec_into_iter_seq<T>(v: Vec<T>) ensures #[trigger] into_iter_seq::<T, Vec<T>>(v) == v@ {}
pub assume_specification<T, A: std::alloc::Allocator, I: IntoIterator<Item = T>> [<Vec<T, A> as std::iter::Extend<T>>::extend] (v: &mut Vec<T, A>, i: I)
    ensures final(v)@ == old(v)@ + into_iter_seq::<T, I>(i);
