// Kani harnesses for the identifier types of crates/erltf/src/types.rs (C10): equality, hash and order see the
// logical fields only; the raw node-local bytes travel with clone.
use super::*;
use std::hash::{Hash, Hasher};
use std::cmp::Ordering;

struct Rec { buf: [u8; 40], n: usize }
impl Hasher for Rec {
    fn finish(&self) -> u64 { 0 }
    fn write(&mut self, bytes: &[u8]) {
        let mut k = 0;
        while k < bytes.len() { if self.n < 40 { self.buf[self.n] = bytes[k]; self.n += 1; } k += 1; }
    }
}
fn same_hash_input<T: Hash>(a: &T, b: &T) -> bool {
    let mut ra = Rec { buf: [0; 40], n: 0 };
    let mut rb = Rec { buf: [0; 40], n: 0 };
    a.hash(&mut ra);
    b.hash(&mut rb);
    if ra.n != rb.n { return false; }
    let mut k = 0;
    while k < 40 { if ra.buf[k] != rb.buf[k] { return false; } k += 1; }
    true
}
fn raw(present: bool, x: u8) -> Option<Bytes> { if present { Some(Bytes::from(vec![x, 88])) } else { None } }
fn node(sel: bool) -> Atom { Atom { name: std::sync::Arc::from(if sel { "a@h" } else { "b@h" }) } }

/// pids: every id/serial/creation, two node names, raw bytes present or not with any first byte
#[kani::proof]
#[kani::unwind(44)]
fn pid_eq_hash_ord_ignore_raw_bytes__complete() {
    let (na, nb): (bool, bool) = (kani::any(), kani::any());
    let a = ExternalPid { node: node(na), id: kani::any(), serial: kani::any(), creation: kani::any(), local_ext_bytes: raw(kani::any(), kani::any()) };
    let b = ExternalPid { node: node(nb), id: kani::any(), serial: kani::any(), creation: kani::any(), local_ext_bytes: raw(kani::any(), kani::any()) };
    let logical_eq = na == nb && a.id == b.id && a.serial == b.serial && a.creation == b.creation;
    assert!((a == b) == logical_eq);
    if logical_eq { assert!(same_hash_input(&a, &b)); assert!(a.cmp(&b) == Ordering::Equal); }
    assert!(a.cmp(&b) == b.cmp(&a).reverse());
    // order = lexicographic on (node, id, serial, creation), independent of the raw bytes
    let want = if na != nb { if na { Ordering::Less } else { Ordering::Greater } }
        else { a.id.cmp(&b.id).then(a.serial.cmp(&b.serial)).then(a.creation.cmp(&b.creation)) };
    assert!(a.cmp(&b) == want);
    // clone carries the raw bytes
    let c = a.clone();
    assert!(c.local_ext_bytes == a.local_ext_bytes);
    kani::cover!(logical_eq && a.local_ext_bytes.is_some() && b.local_ext_bytes.is_none());
}

#[kani::proof]
#[kani::unwind(44)]
fn port_eq_hash_ord_ignore_raw_bytes__complete() {
    let (na, nb): (bool, bool) = (kani::any(), kani::any());
    let a = ExternalPort { node: node(na), id: kani::any(), creation: kani::any(), local_ext_bytes: raw(kani::any(), kani::any()) };
    let b = ExternalPort { node: node(nb), id: kani::any(), creation: kani::any(), local_ext_bytes: raw(kani::any(), kani::any()) };
    let logical_eq = na == nb && a.id == b.id && a.creation == b.creation;
    assert!((a == b) == logical_eq);
    if logical_eq { assert!(same_hash_input(&a, &b)); assert!(a.cmp(&b) == Ordering::Equal); }
    assert!(a.cmp(&b) == b.cmp(&a).reverse());
    let c = a.clone();
    assert!(c.local_ext_bytes == a.local_ext_bytes);
    kani::cover!(logical_eq && a.local_ext_bytes.is_some() != b.local_ext_bytes.is_some());
}

/// references with up to two id words
#[kani::proof]
#[kani::unwind(44)]
fn reference_eq_hash_ord_ignore_raw_bytes__bounded_2ids() {
    let (na, nb): (bool, bool) = (kani::any(), kani::any());
    let (x0, x1, y0, y1): (u32, u32, u32, u32) = (kani::any(), kani::any(), kani::any(), kani::any());
    let (la, lb): (bool, bool) = (kani::any(), kani::any());
    let ia = if la { vec![x0, x1] } else { vec![x0] };
    let ib = if lb { vec![y0, y1] } else { vec![y0] };
    let a = ExternalReference { node: node(na), creation: kani::any(), ids: ia, local_ext_bytes: raw(kani::any(), kani::any()) };
    let b = ExternalReference { node: node(nb), creation: kani::any(), ids: ib, local_ext_bytes: raw(kani::any(), kani::any()) };
    let logical_eq = na == nb && a.creation == b.creation && la == lb && x0 == y0 && (!la || x1 == y1);
    assert!((a == b) == logical_eq);
    if logical_eq { assert!(same_hash_input(&a, &b)); assert!(a.cmp(&b) == Ordering::Equal); }
    assert!(a.cmp(&b) == b.cmp(&a).reverse());
    let c = a.clone();
    assert!(c.local_ext_bytes == a.local_ext_bytes);
}

/// light version for the quick tier: equality and order of pids and ports see the logical fields only
#[kani::proof]
#[kani::unwind(8)]
fn ident_eq_ord_ignore_raw_bytes__complete() {
    let (na, nb): (bool, bool) = (kani::any(), kani::any());
    let a = ExternalPid { node: node(na), id: kani::any(), serial: kani::any(), creation: kani::any(), local_ext_bytes: raw(kani::any(), kani::any()) };
    let b = ExternalPid { node: node(nb), id: kani::any(), serial: kani::any(), creation: kani::any(), local_ext_bytes: raw(kani::any(), kani::any()) };
    let logical_eq = na == nb && a.id == b.id && a.serial == b.serial && a.creation == b.creation;
    assert!((a == b) == logical_eq);
    if logical_eq { assert!(a.cmp(&b) == Ordering::Equal); }
    let pa = ExternalPort { node: node(na), id: kani::any(), creation: kani::any(), local_ext_bytes: raw(kani::any(), kani::any()) };
    let pb = ExternalPort { node: node(nb), id: kani::any(), creation: kani::any(), local_ext_bytes: raw(kani::any(), kani::any()) };
    let peq = na == nb && pa.id == pb.id && pa.creation == pb.creation;
    assert!((pa == pb) == peq);
    if peq { assert!(pa.cmp(&pb) == Ordering::Equal); }
    std::mem::forget(a); std::mem::forget(b); std::mem::forget(pa); std::mem::forget(pb);
}
